; Prototype: sortAndDedup compaction loop - the full-length slice keeps a representative (equal
; reconstructed string) of every original element; reads always see original values. E-matching only.
(set-option :smt.mbqi false)
(set-option :auto_config false)
(declare-fun key (Int) String)                         ; recon string of a leaf node ref
(declare-const O (Array Int Int)) (declare-const len Int)        ; ghost snapshot after the sort
(declare-const N (Array Int Int)) (declare-const prev Int) (declare-const curr Int)
(define-fun inv ((N (Array Int Int)) (prev Int) (curr Int)) Bool
  (and (<= 1 prev) (<= prev curr) (<= curr len)
       (forall ((k Int)) (! (=> (and (<= (- curr 1) k) (< k len)) (= (select N k) (select O k))) :pattern ((select N k))))
       (forall ((k Int)) (! (=> (and (<= 0 k) (< k curr)) (exists ((q Int)) (! (and (<= 0 q) (< q prev) (= (key (select N q)) (key (select O k)))) :pattern ((select N q))))) :pattern ((select O k))))
       (forall ((q Int)) (! (=> (and (<= 0 q) (< q len)) (exists ((k Int)) (! (and (<= 0 k) (< k len) (= (select N q) (select O k))) :pattern ((select O k))))) :pattern ((select N q))))))
(assert (inv N prev curr)) (assert (< curr len))
; body
(declare-const N1 (Array Int Int)) (declare-const prev1 Int)
(declare-const a Int) (declare-const b Int) (assert (= a (select N (- curr 1)))) (assert (= b (select N curr)))
(assert (ite (not (= (key a) (key b)))
   (and (= N1 (store N prev b)) (= prev1 (+ prev 1)))
   (and (= N1 N) (= prev1 prev))))
(push) (echo "invariant preserved") (assert (not (inv N1 prev1 (+ curr 1)))) (check-sat) (pop)
(push) (echo "mutant: writes nodes[prev-1] = nodes[curr] -> must not prove")
(declare-const N2 (Array Int Int)) (assert (not (= (key a) (key b)))) (assert (= N2 (store N (- prev 1) b)))
(assert (not (inv N2 prev (+ curr 1)))) (check-sat) (pop)
