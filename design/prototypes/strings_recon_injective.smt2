; Lemma reconInjective (licence leaves): equal reconstructed strings => equal fields,
; given ids/exceptions are non-empty words over IDCH = [A-Za-z0-9.-]
(set-logic QF_SLIA)
(define-fun IDCH () RegLan (re.union (re.range "A" "Z") (re.range "a" "z") (re.range "0" "9") (str.to_re "-") (str.to_re ".")))
(define-fun recon ((id String) (plus Bool) (he Bool) (ex String)) String
  (str.++ id (ite plus "+" "") (ite he (str.++ " WITH " ex) "")))
(declare-const id1 String) (declare-const id2 String) (declare-const ex1 String) (declare-const ex2 String)
(declare-const p1 Bool) (declare-const p2 Bool) (declare-const h1 Bool) (declare-const h2 Bool)
(assert (str.in_re id1 (re.+ IDCH))) (assert (str.in_re id2 (re.+ IDCH)))
(assert (=> h1 (str.in_re ex1 (re.+ IDCH)))) (assert (=> h2 (str.in_re ex2 (re.+ IDCH))))
(assert (= (recon id1 p1 h1 ex1) (recon id2 p2 h2 ex2)))
(assert (not (and (= id1 id2) (= p1 p2) (= h1 h2) (=> h1 (= ex1 ex2)))))
(check-sat)
