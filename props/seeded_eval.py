#!/usr/bin/env python3
"""Confirm seeded changes (from independent sub-agents) and run the registered checks against them.

  seeded_eval.py import <dir-with-candidates>   confirm each candidate (suite passes, demo fails with / passes without) and keep it under /verif/seeded/<id>/
  seeded_eval.py run [id-substring]             run every registered check against every kept change (scratch clones outside /repo and /verif)
  seeded_eval.py target [id-substring]          run only the check of the target property against every kept change (merged into seeded/results.json)
"""
import json, os, shutil, subprocess, sys, tempfile, time

VERIF = os.path.dirname(os.path.dirname(os.path.abspath(__file__)))
BASE = os.environ.get("VERIF_BASE_REPO", "/repo")  # the tree the changes are applied to (a snapshot for background runs)
ENV = dict(os.environ, GOFLAGS="-mod=mod", GOPROXY="off", GOSUMDB="off", GOTOOLCHAIN="local")


def clone():
    tmp = tempfile.mkdtemp(prefix="verif_seed_")
    dst = os.path.join(tmp, "repo")
    subprocess.run(["git", "clone", "-q", "--no-hardlinks", BASE, dst], check=True)
    d = subprocess.run(["git", "-C", BASE, "diff", "HEAD"], capture_output=True, text=True).stdout
    if d.strip():
        subprocess.run(["git", "-C", dst, "apply"], input=d, text=True, check=True)
    return tmp, dst


def gotest(dst, run=None):
    cmd = ["go", "test", "-vet=off", "-count=1", "-timeout", "300s"]
    if run:
        cmd += ["-run", run, "./spdxexp"]
    else:
        cmd += ["./..."]
    r = subprocess.run(cmd, cwd=dst, env=ENV, capture_output=True, text=True)
    return r.returncode == 0, (r.stdout + r.stderr)[-1500:]


def confirm(cdir):
    patch = os.path.join(cdir, "patch.diff")
    demo = os.path.join(cdir, "demo_test.go")
    if not (os.path.exists(patch) and os.path.exists(demo)):
        return False, "missing patch.diff or demo_test.go", []
    ran = []
    tmp, dst = clone()
    try:
        shutil.copy(demo, os.path.join(dst, "spdxexp", "zz_demo_test.go"))
        ok, out = gotest(dst, "TestSeeded")
        ran.append("without the change: go test -run TestSeeded ./spdxexp -> %s" % ("pass" if ok else "FAIL"))
        if not ok:
            return False, "demo fails WITHOUT the change: " + out, ran
        os.remove(os.path.join(dst, "spdxexp", "zz_demo_test.go"))
        r = subprocess.run(["git", "-C", dst, "apply", patch], capture_output=True, text=True)
        if r.returncode != 0:
            return False, "patch does not apply: " + r.stderr, ran
        ok, out = gotest(dst)
        ran.append("with the change: go test -vet=off -count=1 ./... (existing suite) -> %s" % ("pass" if ok else "FAIL"))
        if not ok:
            return False, "existing suite fails with the change: " + out, ran
        shutil.copy(demo, os.path.join(dst, "spdxexp", "zz_demo_test.go"))
        ok, out = gotest(dst, "TestSeeded")
        ran.append("with the change: go test -run TestSeeded ./spdxexp -> %s" % ("pass" if ok else "FAIL (as required)"))
        if ok:
            return False, "demo passes WITH the change", ran
        return True, out[-600:], ran
    finally:
        shutil.rmtree(tmp, ignore_errors=True)


def do_import(src):
    for name in sorted(os.listdir(src)):
        cdir = os.path.join(src, name)
        if not os.path.isdir(cdir) or not os.path.exists(os.path.join(cdir, "patch.diff")):
            continue
        dst = os.path.join(VERIF, "seeded", name)
        if os.path.exists(dst):
            print("%-10s already kept" % name)
            continue
        ok, why, ran = confirm(cdir)
        if not ok:
            print("%-10s REJECTED: %s" % (name, why[:300]))
            continue
        os.makedirs(dst)
        shutil.copy(os.path.join(cdir, "patch.diff"), dst)
        shutil.copy(os.path.join(cdir, "demo_test.go"), dst)
        meta = {}
        try:
            meta = json.load(open(os.path.join(cdir, "meta.json")))
        except Exception:
            pass
        meta["agent_ran"] = meta.pop("ran", None)
        meta["confirmed_by_me"] = ran
        meta["demo_failure_excerpt"] = why
        json.dump(meta, open(os.path.join(dst, "meta.json"), "w"), indent=1)
        print("%-10s confirmed and kept" % name)


def registered():
    m = json.load(open(os.path.join(VERIF, "MANIFEST.json")))
    return [c["property_id"] for c in m["checks"]]


def do_run(sel="", target_only=False):
    props = registered()
    table = {}
    sdir = os.path.join(VERIF, "seeded")
    for name in sorted(os.listdir(sdir)):
        if sel not in name:
            continue
        patch = os.path.join(sdir, name, "patch.diff")
        meta = json.load(open(os.path.join(sdir, name, "meta.json")))
        target = meta.get("property", name.split("_")[0])
        tmp, dst = clone()
        row = {}
        try:
            subprocess.run(["git", "-C", dst, "apply", patch], check=True)
            env = dict(ENV, VERIF_REPO=dst, VERIF_NO_RETRY="1")  # (the matrix only asks "exit 1 or not"; no second attempts)
            order = [p for p in props if p == target] + [p for p in props if p != target and not target_only]
            for p in order:
                t0 = time.time()
                c = subprocess.run([os.path.join(VERIF, "check"), p, "quick"], env=env, capture_output=True, text=True)
                viol = [l for l in c.stdout.splitlines() if l.startswith("VIOLATION")]
                row[p] = {"rc": c.returncode, "violations": len(viol), "first": viol[0] if viol else "", "s": round(time.time() - t0, 1)}
                if c.returncode == 2:
                    row[p]["engine"] = c.stdout[-300:]
        finally:
            shutil.rmtree(tmp, ignore_errors=True)
        table[name] = row
        # written after every change (a long run may be cut short), merged with what an earlier run recorded
        rp = os.path.join(VERIF, "seeded", "results.json")
        try:
            prev = json.load(open(rp))
        except Exception:
            prev = {}
        if target_only and isinstance(prev.get(name), dict):
            merged = dict(prev[name])
            merged.update(row)
            row = merged
        prev[name] = row
        json.dump(prev, open(rp, "w"), indent=1)
        caught = [p for p, r in row.items() if r["rc"] == 1]
        print("%-10s target=%s caught_by=%s %s" % (name, target, ",".join(caught) or "-", "" if caught else "MISSED  " + json.dumps({p: r["rc"] for p, r in row.items()})))
        sys.stdout.flush()


def do_reconfirm():
    sdir = os.path.join(VERIF, "seeded")
    for name in sorted(os.listdir(sdir)):
        d = os.path.join(sdir, name)
        if not os.path.isdir(d):
            continue
        ok, why, ran = confirm(d)
        print("%-10s %s" % (name, "still confirmed on the current tree" if ok else "NOT CONFIRMED: " + why[:300]))
        sys.stdout.flush()


if __name__ == "__main__":
    if len(sys.argv) >= 2 and sys.argv[1] == "reconfirm":
        do_reconfirm()
    elif len(sys.argv) >= 3 and sys.argv[1] == "import":
        do_import(sys.argv[2])
    elif len(sys.argv) >= 2 and sys.argv[1] == "run":
        do_run(sys.argv[2] if len(sys.argv) > 2 else "")
    elif len(sys.argv) >= 2 and sys.argv[1] == "target":
        do_run(sys.argv[2] if len(sys.argv) > 2 else "", target_only=True)
    else:
        print(__doc__)
