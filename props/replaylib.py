"""Replay: turn a failed obligation into a failing input of the real code.

The search runs the real package (go test -overlay, nothing is written to /repo) over
bounded enumerations with a property-specific oracle written from the property text.
"""
import json, os, subprocess, tempfile

VERIF = os.path.dirname(os.path.dirname(os.path.abspath(__file__)))
HARNESS = os.path.join(VERIF, "props", "replay_harness_test.go.txt")


def _run(pid, repo, env, seed, budget="20s", only=None, trace=None):
    ov = {"Replace": {os.path.join(repo, "spdxexp", "zz_verif_replay_test.go"): HARNESS}}
    with tempfile.NamedTemporaryFile("w", suffix=".json", delete=False) as f:
        json.dump(ov, f)
        ovp = f.name
    e = dict(env, VERIF_REPLAY_PROP=pid, VERIF_SEED=str(seed), VERIF_REPLAY_BUDGET=budget)
    if only is not None:
        e["VERIF_REPLAY_ONLY"] = json.dumps(only)
    if trace is not None:
        e["VERIF_REPLAY_TRACE"] = trace
    extra = ["-race"] if pid == "C13" else []
    try:
        r = subprocess.run(["go", "test", "-overlay", ovp, "-vet=off", "-count=1", "-v"] + extra + ["-timeout", "120s", "-run", "^TestVerifReplay$", "./spdxexp"],
                           cwd=repo, env=e, capture_output=True, text=True, timeout=300)
    except subprocess.TimeoutExpired:
        return None, "timeout"
    finally:
        os.unlink(ovp)
    if "WARNING: DATA RACE" in (r.stdout + r.stderr):
        txt = (r.stdout + r.stderr)
        i = txt.index("WARNING: DATA RACE")
        return {"property": "C13", "call": "16 goroutines calling Satisfies / ExtractLicenses / ValidateLicenses over a shared allowed list (go test -race)",
                "args": [], "observed": "data race reported by the Go race detector:\n" + txt[i:i + 1500], "expected": "no data race"}, txt[-2000:]
    for line in (r.stdout + r.stderr).splitlines():
        if line.strip().startswith("FOUND:"):
            try:
                return json.loads(line.split("FOUND:", 1)[1]), r.stdout[-2000:]
            except Exception:
                pass
    txt = r.stdout + r.stderr
    crashed = r.returncode != 0 and ("fatal error:" in txt or "stack overflow" in txt or "panic:" in txt or "signal:" in txt)
    if crashed and trace is None and pid == "C03":
        # the test binary died of an error no recover() can catch (stack exhaustion by unbounded recursion): run the same
        # search again with every call logged before it is made; the last logged call is the failing input
        tf = tempfile.NamedTemporaryFile("w", suffix=".trace", delete=False)
        tf.close()
        try:
            _run(pid, repo, env, seed, budget=budget, only=only, trace=tf.name)
            lines = [l for l in open(tf.name).read().splitlines() if l.strip()]
        finally:
            os.unlink(tf.name)
        if lines:
            try:
                last = json.loads(lines[-1])
                i = txt.find("fatal error:")
                last["observed"] = "the process crashed during this call: " + (txt[i:i + 160].splitlines()[0] if i >= 0 else "fatal error")
                last["expected"] = "a result or an error value"
                return last, txt[-2000:]
            except Exception:
                pass
    return None, txt[-2000:]


_memo = {}


def find_input(pid, verdict, repo, env, seed):
    # the search of the property itself first, then those of the other properties the failed clause serves
    order = [pid] + [p for p in (verdict.get("props") or []) if p != pid and p != "*"]
    found = None
    for p in order:
        if p not in _memo:
            _memo[p] = _run(p, repo, env, seed)
        f, out = _memo[p]
        if f:
            found = dict(f)
            break
    if found:
        found["how"] = "bounded-search"
        found["cmd"] = "go test -overlay <props/replay_harness_test.go.txt> -run TestVerifReplay ./spdxexp (VERIF_REPLAY_PROP=%s)" % pid
    return found


def rerun(path, repo, env):
    rp = json.load(open(path))
    inp = rp.get("input")
    wit = rp.get("witness")
    obl = rp.get("obligation") or ""
    if not inp and wit is not None and (obl.startswith("ground:") or obl.startswith("bounded:generator")):
        # witness of a table hypothesis or of a generator run: evaluate the same thing again on the current tree
        now = []
        if obl.startswith("ground:"):
            govc = os.path.join(VERIF, "bin", "govc")
            r = subprocess.run([govc, "ground", "-check", obl.split(":", 1)[1], repo], env=env, capture_output=True, text=True)
            try:
                now = json.loads(r.stdout).get("witnesses") or []
            except Exception:
                print("could not re-evaluate:", (r.stdout + r.stderr)[:500])
                return 1
        else:
            import genrun
            now = genrun.run(repo, env) if obl == "bounded:generator" else genrun.run_configs(repo, env)[1]
        same = [w for w in now if w == wit]
        if not same and isinstance(wit, dict):
            key = {k: wit[k] for k in ("configuration", "file") if k in wit}
            same = [w for w in now if isinstance(w, dict) and key and all(w.get(k) == v for k, v in key.items())]
        if same:
            print("REPRODUCED:", json.dumps(same[0]))
            return 1
        print("not reproduced on the current tree")
        return 0
    if not inp:
        print("replay file carries no concrete input (no-failing-input-found); obligation:", rp.get("obligation"))
        print(rp.get("solver_output", "")[:2000])
        return 1
    found, out = _run(rp["property"], repo, env, 0, only=inp)
    if found:
        print("REPRODUCED:", json.dumps(found))
        return 1
    print("not reproduced on the current tree")
    return 0
