#!/usr/bin/env python3
"""seeded_table.py: markdown table 'which registered check catches which seeded change' from seeded/results*.json and seeded/*/meta.json."""
import json, os, glob
V = os.path.dirname(os.path.dirname(os.path.abspath(__file__)))
res = {}
for f in sorted(glob.glob(os.path.join(V, "seeded", "results*.json"))):
    res.update(json.load(open(f)))
print("| change | target | what was changed (one line) | caught by (quick checks, exit 1) |")
print("|---|---|---|---|")
for name in sorted(res):
    meta = json.load(open(os.path.join(V, "seeded", name, "meta.json")))
    summ = " ".join((meta.get("summary") or meta.get("description") or meta.get("what") or "").split())
    if not summ:
        files, ctx = [], []
        for l in open(os.path.join(V, "seeded", name, "patch.diff")):
            if l.startswith("+++ b/"):
                files.append(l[6:].strip())
            elif l.startswith("@@") and l.count("@@") >= 2:
                c = l.split("@@")[2].strip()
                if c and c not in ctx:
                    ctx.append(c)
        summ = "edit in " + ", ".join(files) + (" (" + "; ".join(ctx[:2]) + ")" if ctx else "")
    if len(summ) > 150:
        summ = summ[:147] + "..."
    summ = summ.replace("|", "/")
    row = res[name]
    tgt = meta.get("property", name.split("_")[0])
    caught = [p for p, v in sorted(row.items()) if v["rc"] == 1]
    mark = "" if tgt in caught else " (**target check silent**)"
    print("| %s | %s | %s | %s%s |" % (name, tgt, summ, ", ".join(caught) or "-", mark))
