"""Per-property configuration of the checks (what is proved, what is ground-evaluated, what is bounded, what is assumed)."""

DEFS_BY_CODE = [
    "V(s), K(s): 'parse(s) returns no error' / 'returns an AND-OR node' are logical functions of the string: definitions by the code, justified by the purity obligations of C13 (not proved facts)",
    "Lexable(s), TokLen(s), TokSeq(s): the token sequence of a string is a logical function of the string, defined by the deterministic scanner (same justification)",
]

PROPS = {
    "C01": {
        "level": "proof", "prove": True, "ground": [],
        "assumptions": DEFS_BY_CODE + [
            "second-order instantiation: the expansion contracts are proved for an uninterpreted 'covered' predicate m; Satisfies assumes m(t) <=> some allowed node matches t (sound as long as no other clause constrains m; checked by inspection of the contract file)",
            "the allowed nodes are those in the array after the in-place sort and compaction of sortAndDedup; that they denote the same set as the allowed list is the subject of C07",
            "matchT includes, besides the documented rule, the code's shortcut 'same exception and canonical strings equal up to letter case'; on canonical spellings the two coincide (foldUnique, ground-evaluated under C09/C12)",
            "sem, the reference grammar and the matching rule are transcriptions of the property text and are trusted as its meaning",
        ],
    },
    "C02": {
        "level": "proof", "prove": True, "ground": [],
        "assumptions": [
            "strings.EqualFold is reflexive (the only axiom used)",
            "symmetry / reflexivity of the rule are properties of the spec predicate licMatch / refMatch (symmetric by inspection); they are not mechanised as separate lemmas",
            "the family table is the abstract constant RangeAt: the theorem holds for whatever table the tree ships",
        ],
    },
    "C03": {
        "level": "proof", "prove": True, "ground": [],
        "assumptions": [
            "stack exhaustion on pathological nesting and out-of-memory are fatal errors outside any contract (not proved)",
            "partial correctness: termination of the scanner loop and of the recursive descent is not proved",
        ],
    },
    "C04": {
        "level": "proof", "prove": True, "ground": [],
        "assumptions": DEFS_BY_CODE,
    },
    "C05": {
        "level": "proof", "prove": True, "ground": ["noOperatorPrefix", "idsAreIDCH"],
        "bounded": {"search": "C05", "quick": "6s", "thorough": "120s",
                    "what": "classification of single lexemes (which character runs are which token, list lookups with -only / -or-later / '+' folding) is not under a functional contract; it is compared with a reference lexer written from the property text on all strings of <= 4 lexemes over the alphabet of the property, loose and tight spacing (BOUNDED, not counted as proved)"},
        "assumptions": DEFS_BY_CODE + [
            "token level (proved): parse succeeds on a token sequence iff the reference grammar derives exactly that sequence, and the tree is the grammar's tree",
            "lexical level (proved): the scanner's buffer/offset relation - no character of the caller's string is dropped or invented by the -or-later rewrite; (bounded): the classification of each lexeme",
            "regexp FindStringIndex on the two literal class patterns returns the leftmost-longest match (assumed contract)",
        ],
    },
    "C11": {
        "level": "proof", "prove": True,
        "ground": ["tableShape", "rangesEntriesListed", "rangesUniquePosition", "rangesOneFamilyShape", "rangesOneVersionPerStep", "rangesAscending", "rangesFamilyComplete"],
        "assumptions": [
            "code part: the matching theorem of C02 (X-v1+ matches X-v2 iff same family position and version index(v2) >= version index(v1)), parametric in the table",
            "table part: ground evaluation on the literal of LicenseRanges(); the natural version order is a transcription (numeric, component-wise, trailing letter)",
        ],
    },
    "C12": {
        "level": "other", "prove": False,
        "ground": ["tableShape", "jsonAgreement", "listsDisjoint", "foldUnique", "idsAreIDCH", "noOperatorPrefix"],
        "bounded": {"search": "C12", "quick": "20s", "thorough": "60s",
                    "what": "every listed license id is accepted as a one-term expression, every exception id after WITH and nowhere else: exhaustive execution of the real ValidateLicenses over the finite shipped tables (one configuration: the current tree)"},
        "generator": True,
        "explanation": "Ground evaluation: the three generated lists equal, in order, the ids derived from cmd/licenses.json and cmd/exceptions.json by the property's rule; they are pairwise disjoint, fold-unique and made of id characters (decided by evaluation on the literals of the current tree on every run). Bounded stand-in, labelled bounded and not counted as proved: the real generator (cmd) is run on the shipped JSON in a scratch copy outside /repo and its output compared byte for byte with the committed files; acceptance of every id is checked by exhaustive execution over the finite tables. The generator code itself (os, encoding/json, file I/O) is outside the verifier's reach.",
        "assumptions": ["encoding/json decodes the JSON files faithfully", "one configuration only: the JSON files and tables of the current tree"],
    },
    "C13": {
        "level": "proof", "prove": True, "ground": [],
        "assumptions": [
            "meta-argument (stated, not mechanised): an activation that reads only its arguments and immutable data and writes only memory it allocated is deterministic and cannot race with another activation",
            "the Go standard library functions on the whitelist are deterministic, perform no I/O and are safe for concurrent use as documented",
        ],
    },
    "C15": {
        "level": "proof", "prove": True, "ground": [],
        "assumptions": [
            "the three offset-bearing messages are the fmt.Sprintf sites of scan.go; the assertions are on the arguments passed to them (fmt.Sprintf formats %d / %s faithfully)",
        ],
    },
}
