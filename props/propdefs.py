"""Per-property configuration of the checks (what is proved, what is ground-evaluated, what is bounded, what is assumed)."""

DEFS_BY_CODE = [
    "V(s), K(s): 'parse(s) returns no error' / 'returns an AND-OR node' are logical functions of the string: definitions by the code, justified by the purity obligations of C13 (not proved facts)",
    "Lexable(s), TokLen(s), TokSeq(s): the token sequence of a string is a logical function of the string, defined by the deterministic scanner (same justification)",
]

PROPS = {
    "C01": {
        "level": "proof", "prove": True, "ground": [],
        "assumptions": DEFS_BY_CODE + [
            "second-order instantiation: the expansion contracts are proved for an uninterpreted 'covered' predicate m; Satisfies assumes m(t) <=> some allowed node matches t (sound as long as no other clause constrains m: govc checks on every run that m occurs in no requires, type invariant or second assume and only in axioms that are elimination rules of other opaque functions; a contract file that breaks this is an engine error)",
            "the allowed nodes are those in the array after the in-place sort and compaction of sortAndDedup; that they denote the same set as the allowed list is the subject of C07",
            "matchT includes, besides the documented rule, the code's shortcut 'same exception and canonical strings equal up to letter case'; on canonical spellings the two coincide (foldUnique, ground-evaluated under C09/C12)",
            "sem, the reference grammar and the matching rule are transcriptions of the property text and are trusted as its meaning",
        ],
    },
    "C02": {
        "level": "proof", "prove": True, "ground": [],
        "bounded": {"search": "C02", "quick": "8s", "thorough": "90s",
                    "what": "BOUNDED cross-check (not part of the proof): Satisfies(a, [b]) against the documented single-term rule for pairs of terms built from every id of the shipped family table (plain, '+', lower case) and a sample of the other listed ids, LicenseRef / DocumentRef terms, in both orders, on the real code and the real table"},
        "assumptions": [
            "strings.EqualFold is reflexive (the only axiom used)",
            "symmetry and reflexivity of the rule, 'a license never matches a reference' and '+ stays in the family' are lemmas about the spec predicates licMatch / refMatch / matchT (licMatchSymmetric, refMatchSymmetric, matchSymmetric, licMatchReflexive, refMatchReflexive, licenseNeverMatchesRef, plusStaysInFamily), proved on every run from the definitions alone",
            "the family table is the abstract constant RangeAt: the theorem holds for whatever table the tree ships",
        ],
    },
    "C03": {
        "level": "proof", "prove": True, "ground": [],
        "assumptions": [
            "termination (proved): every loop has a variant - derived for range loops (bound - index, the bound is evaluated once), a decreases clause for the loops of scan (unread bytes of the buffer, with progress clauses on every reader: the -or-later rewrite shortens the buffer by 8 and moves the index back by 9 only after an id of >= 9 bytes was read) and sortAndDedup; every call that can lead back to its caller strictly decreases a lexicographic measure of natural numbers - (tokens left, rank) for the four mutually recursive parser functions, (size of the node's ghost tree, rank) for expandOr / expandOrTerm / expandAnd / expandAndTerm (tsize >= 1 by structural induction, cvc5); a loop or recursive call without a variant / measure is a failed obligation",
            "termination of the standard-library callees (sort.Slice with a terminating comparator, regexp, strings.*, fmt.Sprintf) is assumed",
            "stack exhaustion on pathological nesting (the recursion depth is bounded by the measures, but the stack size is not modelled) and out-of-memory are fatal errors outside any contract (not proved)",
        ],
    },
    "C04": {
        "level": "proof", "prove": True, "ground": [],
        "assumptions": DEFS_BY_CODE,
    },
    "C05": {
        "level": "proof", "prove": True, "ground": ["noOperatorPrefix", "idsAreIDCH", "foldUnique", "noEmptyId"],
        "bounded": {"search": "C05", "quick": "6s", "thorough": "120s",
                    "what": "BOUNDED cross-check (not part of the proof): the whole scanner is compared with an independently written reference lexer on all strings of <= 4 lexemes over the alphabet of the property, loose and tight spacing"},
        "assumptions": DEFS_BY_CODE + [
            "token level (proved): parse succeeds on a token sequence iff the reference grammar derives exactly that sequence, and the tree is the grammar's tree",
            "lexical level (proved): scan's token sequence is the reference lexer's, position by position (clauses lexOK / lexFail of scan, lexRef / lexRefFail of parse): the reference lexer is written from the property text over positions of the caller's string - skip spaces; the first of WITH AND OR ( ) : + that prefixes the text is an operator ('+' right after a space is an error); DocumentRef-/LicenseRef- followed by a maximal, non-empty run of id characters; otherwise the maximal id run, classified by the documented normalisation (nCase/nRole/nVal = normCase/normRole/normVal: listed id; X-only; X followed by '+'; unlisted X-or-later -> X and a synthesised '+'; deprecated id; else error). Every reader function (readOperator, readID, readDocumentRef, readLicenseRef, readLicense, normalizeLicense, parseToken) is proved against one step of it, the loop of scan against the recursive sequence (posK, pendK, noStopBefore); lemmas noStopPrefix (integer induction, cvc5) and firstStopUnique show that the reference lexer stops exactly once, so 'ends after n tokens' and 'fails at token k' are exclusive",
            "Lexable / TokLen / TokSeq remain names for the scanner's output (definitions by the code, C13), now PROVED to satisfy the reference characterisation; the -or-later rewrite of the buffer is covered by the buffer/offset relation (no character of the caller's string dropped or invented)",
            "table hypotheses used as axioms by the normalisation contracts: no two entries of a list are equal up to case (ground: foldUnique), no listed id is empty (ground: noEmptyId)",
            "assumed contract of regexp: FindStringIndex on the two literal class patterns returns the leftmost-longest match, stated with runLen(s, class) = length of the maximal class prefix of s (uniquely characterised by: in bounds, a prefix of class characters, followed by a non-class character or the end); strings.EqualFold is an equivalence and only \"\" folds to \"\"",
        ],
    },
    "C06": {
        "level": "proof", "prove": True, "ground": ["idsAreIDCH", "noRefPrefix"],
        # the last clause of C06 ("using the returned list as the allowed list always satisfies the expression") is a statement
        # about Satisfies: it rests on Satisfies' closed form result == semL(tree, list) (the C07 chain: stringsToNodes,
        # sortAndDedup, isCompatible) and on the Boolean reading of the expansion (the C01 chain), so this check also
        # discharges the obligations tagged C07 and C01
        "rests_on": ["C07", "C01"],
        "bounded": {"search": "C06", "quick": "8s", "thorough": "120s",
                    "what": "'every returned string extracts to itself' and 'the returned list satisfies the expression' relate two API calls and are not under contract; they are checked by execution against the reference oracle on enumerated expressions (BOUNDED)"},
        "assumptions": DEFS_BY_CODE + [
            "proved: no term of the expression is missing from the result (for every leaf x of the tree the canonical string of x occurs in the result), none is invented (every returned string is the canonical string of some leaf of the tree), and the result is duplicate-free",
            "canonical spelling: the returned string of a term is reconT of its tree (contract of reconstructedLicenseString); that the id inside is the list's spelling is C09",
            "this check also discharges every obligation tagged C07 and C01: the self-satisfaction clause is a statement about Satisfies, whose verdict is proved to be semL(tree, allowed list) by those chains",
            "proved (lemma coveredLeavesSatisfy, structural induction by cvc5): an allowed list that covers every leaf of a tree satisfies it; with matching reflexive (C02 lemmas) the self-satisfaction clause reduces to the round trip 'the canonical string of a term parses back to that term', which splits into a token level - PROVED: the canonical token sequence of a term (license id, '+' if flagged, WITH and the exception; [DocumentRef ':'] LicenseRef) is derived by the reference grammar from exactly that sequence and yields the term (lemmas leafTokensLic00/10/01/11, leafTokensRef0/1; with the parser contracts, parse returns that term) - and a lexical level (the canonical STRING lexes to that token sequence), which is the bounded part",
        ],
    },
    "C07": {
        "level": "proof", "prove": True, "ground": ["idsAreIDCH", "noRefPrefix"],
        "bounded": {"search": "C07", "quick": "6s", "thorough": "60s",
                    "what": "permutation / duplication invariance, re-spelling of entries (spaces, parentheses, letter case) and monotonicity of the verdict, checked by execution on enumerated lists (BOUNDED cross-check of the stated meta-lemmas); and the ASSUMED contract of sort.Slice (a permutation by swaps inside the slice, less called with indices inside the slice) against the real package on every arrangement of up to 7 keys and on longer slices"},
        "assumptions": DEFS_BY_CODE + [
            "proved (code): stringsToNodes yields, in order, the term of every entry; every node carries listed ids / id-character names (representation invariant, established by the scanner and parser contracts); the in-place sort+compaction keeps in the full-length slice exactly the canonical strings AND exactly the terms that were there; hence (Satisfies, clause verdictOfTheSet) the verdict is sem(tree) with 'covered(t)' = 'some ENTRY of the allowed list denotes a term matching t' - an existential over the entries",
            "proved (code): Satisfies' clause verdictIsSemL: err == nil ==> result == semL(tree of the expression, allowed list), a closed spec function of the expression's tree and the list's entries (no reference to the nodes, their order or the compaction)",
            "proved (lemmas, pure SMT): equal canonical strings of well-formed leaves denote equal terms (reconInjective; its five string cases are decided by cvc5 in the thorough tier and assumed in the quick tier), a leaf with listed ids is well-formed (from the table hypotheses idsAreIDCH / noRefPrefix, ground-evaluated on every run)",
            "proved (lemmas, structural induction on the ghost tree by cvc5 --quant-ind, a trusted feature of that back end): sem with 'covered' := coveredL is semL (semIsSemL); if every term denoted by an entry of list A is denoted by an entry of list B then semL(t, A) ==> semL(t, B) (verdictMonotone: adding entries never turns satisfied into not satisfied); lists denoting the same set of terms give the same verdict (verdictOfSet: reordering, repeating, re-spelling an entry with the same term)",
            "not mechanised: that a re-spelled entry (letter case of a listed id, surrounding spaces or parentheses) denotes the same term is the lexical level of C05 / C09 (bounded there); it is cross-checked here by the bounded execution",
        ],
    },
    "C08": {
        "level": "proof", "prove": True, "ground": ["onlyPairsShareGroup", "laterPairsShareGroup", "tableShape"],
        "bounded": {"search": "C08", "quick": "15s", "thorough": "120s",
                    "what": "for every id X of the active and deprecated lists: X / X-only and X+ / X-or-later are interchanged as expression and as allowed entry against every id of the same family (with and without '+', with and without exception) and unrelated ids, on the real code (exhaustive over the shipped tables within the time budget; BOUNDED cross-check of the composition below)"},
        "assumptions": [
            "proved (code): normalizeLicense accepts a lexeme iff it is a valid id and returns the token (role, value) = (normRole, normVal)(lexeme, next character is '+'): the documented normalisation with its priority order - a listed id itself; X-only -> X when X-only is not listed; X followed by '+' -> the listed X-or-later, consuming the '+'; X-or-later -> X with the '+' flag when X-or-later is not listed; a deprecated id last; the parser sets the '+' flag from a '+' token or the suffix -or-later; getLicenseRange looks an id up with -or-later stripped (clauses tagged C08 in scan.go / parse.go / license.go contracts)",
            "proved (lemma sameSlotInterchangeable, pure SMT): two license terms whose ids occupy the same slot (family, version) of the table, with the same '+' flag and exception, match exactly the same terms, on either side of the rule",
            "ground (evaluated on the shipped tables on every run): for every listed X the id denoted by 'X-only' is X itself or lies in X's slot (onlyPairsShareGroup); 'X+' and 'X-or-later' yield the same token, or ids that are looked up as the same table entry, which must exist (laterPairsShareGroup)",
            "composition (stated): with verdictIsSemL (C07) the verdict depends on a term only through which terms it matches, so interchangeable terms give the same verdict in the expression and in the allowed list; the code's extra shortcut 'canonical strings equal up to case' coincides with id equality on listed ids (foldUnique)",
        ],
    },
    "C09": {
        "level": "proof", "prove": True, "ground": ["foldUnique", "noOperatorPrefix", "tableShape", "deprecatedSuffixFree"],
        "bounded": {"search": "C09", "quick": "10s", "thorough": "60s",
                    "what": "every listed license and exception id in upper, lower and mixed case: same validity, same ExtractLicenses output (list casing), mutual satisfaction with the canonical spelling (exhaustive over the shipped tables; BOUNDED cross-check)"},
        "assumptions": [
            "proved (code): inLicenseList finds an entry iff some entry equals the id up to letter case and returns the first such ENTRY (the list's spelling); the scanner's token for an id lexeme is (nRole, nVal)(lexeme, next-is-'+') with nVal an entry of the lists (C05 lexical level, C08 normalisation)",
            "proved (lemmas, pure SMT): foldClassListed - a lexeme fold-equal to one that denotes an active or exception id gets the same classification, role and token value; foldClassDeprecated - likewise for ids that are only on the deprecated list, given that no case variant of such an id looks like '<listed id>-only / -or-later' (ground: deprecatedSuffixFree)",
            "ground: no two listed ids are equal up to case (foldUnique), none starts with an operator keyword (noOperatorPrefix: the operator-first rule of the lexer never splits a re-cased id)",
            "assumed about strings.EqualFold: an equivalence relation, only \"\" folds to \"\", compatible with appending '-or-later'",
            "composition (stated): the token sequence, hence the tree, hence validity, the verdict (C07: semL of the trees) and the extracted strings (C06: reconT of the leaves, with the list's spelling as id) are the same for re-cased listed ids",
        ],
    },
    "C10": {
        "level": "proof", "prove": True, "ground": [],
        "bounded": {"search": "C10", "quick": "6s", "thorough": "60s",
                    "what": "Satisfies('(E) AND (F)') = Satisfies(E) && Satisfies(F), likewise OR, operand order, spacing and parentheses, on enumerated expressions and lists (BOUNDED cross-check)"},
        "assumptions": DEFS_BY_CODE + [
            "proved: the verdict is semL(tree, allowed list) (Satisfies, clause verdictIsSemL, with the chain of C01 and C07), and ExtractLicenses returns exactly the canonical strings of the leaves of the tree (C06: noTermMissing, noneInvented); the obligations of C01 and C06 are listed again here",
            "proved (lemmas about the spec functions): semL decomposes over AND / OR and satisfies commutativity, associativity, both distributive laws, idempotence and absorption; the leaf set is unchanged by commutation, regrouping, repetition and distribution",
            "not mechanised: closure of these laws under contexts and sequences of rewrites (congruence of semL / leafOf in a sub-tree: immediate from their recursive form), and that the TEXT '(E) AND (F)', extra spaces and redundant parentheses parse to the corresponding trees (token level of C05: '( E )' has the tree of E, spaces produce no token; concatenation of token sequences is not a stated lemma)",
        ],
    },
    "C11": {
        "level": "proof", "prove": True,
        "bounded": {"search": "C02", "quick": "8s", "thorough": "90s",
                    "what": "BOUNDED cross-check (not part of the proof): Satisfies(a, [b]) against the documented rule, including 'X-v1+ matches X-v2 iff v2 >= v1', for pairs built from every id of the shipped family table, on the real code and the real table"},
        "ground": ["tableShape", "rangesEntriesListed", "rangesUniquePosition", "rangesOneFamilyShape", "rangesOneVersionPerStep", "rangesAscending", "rangesFamilyComplete"],
        "assumptions": [
            "code part: the matching theorem of C02 (X-v1+ matches X-v2 iff same family position and version index(v2) >= version index(v1)), parametric in the table",
            "table part: ground evaluation on the literal of LicenseRanges(); the natural version order is a transcription (numeric, component-wise, trailing letter)",
        ],
    },
    "C12": {
        "level": "other", "prove": False,
        "ground": ["tableShape", "jsonAgreement", "listsDisjoint", "foldUnique", "idsAreIDCH", "noOperatorPrefix"],
        "bounded": {"search": "C12", "quick": "20s", "thorough": "60s",
                    "what": "every listed license id is accepted as a one-term expression, every exception id after WITH and nowhere else: exhaustive execution of the real ValidateLicenses over the finite shipped tables (one configuration: the current tree)"},
        "generator": True,
        "explanation": "Ground evaluation: the three generated lists equal, in order, the ids derived from cmd/licenses.json and cmd/exceptions.json by the property's rule; they are pairwise disjoint, fold-unique and made of id characters (decided by evaluation on the literals of the current tree on every run). Bounded stand-in, labelled bounded and not counted as proved: the real generator (cmd) is run on the shipped JSON in a scratch copy outside /repo and its output compared byte for byte with the committed files; acceptance of every id is checked by exhaustive execution over the finite tables. The generator code itself (os, encoding/json, file I/O) is outside the verifier's reach.",
        "assumptions": ["encoding/json decodes the JSON files faithfully", "the table postconditions are decided for one configuration (the JSON files and tables of the current tree); 'any future refresh or hand edit' of the JSON is covered only by a BOUNDED family of derived configurations on which the real generator is run and compared with the property's rule"],
    },
    "C13": {
        "level": "proof", "prove": True, "ground": [],
        "assumptions": [
            "meta-argument (stated, not mechanised): an activation that reads only its arguments and immutable data and writes only memory it allocated is deterministic and cannot race with another activation",
            "the Go standard library functions on the whitelist are deterministic, perform no I/O and are safe for concurrent use as documented",
        ],
    },
    "C15": {
        "level": "proof", "prove": True, "ground": [],
        "assumptions": [
            "the three offset-bearing messages are the fmt.Sprintf sites of scan.go; the assertions are on the arguments passed to them (fmt.Sprintf formats %d / %s faithfully)",
        ],
    },
}
