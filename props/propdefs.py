"""Per-property configuration of the checks (what is proved, what is ground-evaluated, what is assumed)."""

PROPS = {
    "C03": {
        "level": "proof",
        "prove": True,
        "ground": [],
        "assumptions": [
            "stack exhaustion on pathological nesting and out-of-memory are fatal errors outside any contract (not proved)",
            "partial correctness: termination of the scanner loop and of the recursive descent is not proved",
        ],
    },
    "C13": {
        "level": "proof",
        "prove": True,
        "ground": [],
        "assumptions": [
            "meta-argument (stated, not mechanised): an activation that reads only its arguments and immutable data and writes only memory it allocated is deterministic and cannot race with another activation",
            "the Go standard library functions on the whitelist are deterministic, perform no I/O and are safe for concurrent use as documented",
        ],
    },
}
