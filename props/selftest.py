"""Must-fail corpus: every patch in selftest/mutants must (a) apply, (b) compile, (c) make the check of the
property named by its file-name prefix report a VIOLATION.  Runs on scratch copies outside /repo and /verif."""
import os, subprocess, sys, tempfile, shutil, json, re

VERIF = os.path.dirname(os.path.dirname(os.path.abspath(__file__)))
BASE = os.environ.get("VERIF_BASE_REPO", "/repo")  # the tree the changes are applied to (a snapshot for background runs)


def run_one(patch, props=None, tier="quick"):
    name = os.path.basename(patch)
    pid = name.split("_")[0]
    props = props or [pid]
    tmp = tempfile.mkdtemp(prefix="verif_mut_")
    try:
        dst = os.path.join(tmp, "repo")
        subprocess.run(["git", "clone", "-q", "--no-hardlinks", BASE, dst], check=True)
        # carry over uncommitted working-tree state of /repo (contracts under development)
        d = subprocess.run(["git", "-C", BASE, "diff", "HEAD"], capture_output=True, text=True).stdout
        if d.strip():
            subprocess.run(["git", "-C", dst, "apply"], input=d, text=True, check=True)
        r = subprocess.run(["git", "-C", dst, "apply", patch], capture_output=True, text=True)
        if r.returncode != 0:
            return name, "patch-does-not-apply", r.stderr.strip()
        env = dict(os.environ, GOFLAGS="-mod=mod", GOPROXY="off", GOSUMDB="off", GOTOOLCHAIN="local", VERIF_REPO=dst, VERIF_NO_RETRY="1")  # (a mutant is expected to fail: no second attempts)
        b = subprocess.run(["go", "build", "./..."], cwd=dst, env=env, capture_output=True, text=True)
        if b.returncode != 0:
            return name, "does-not-compile", b.stderr[-500:]
        results = {}
        for p in props:
            c = subprocess.run([os.path.join(VERIF, "check"), p, tier], env=env, capture_output=True, text=True)
            viol = [l for l in c.stdout.splitlines() if l.startswith("VIOLATION")]
            results[p] = (c.returncode, viol, c.stdout[-600:])
        detected = any(rc == 1 and v for rc, v, _ in results.values())
        return name, ("detected" if detected else "MISSED"), results
    finally:
        shutil.rmtree(tmp, ignore_errors=True)


def main(argv):
    mdir = os.path.join(VERIF, "selftest", "mutants")
    sel = argv[0] if argv else ""
    patches = sorted(p for p in os.listdir(mdir) if p.endswith(".patch") and sel in p)
    missed = 0
    for p in patches:
        name, status, detail = run_one(os.path.join(mdir, p))
        print("%-70s %s" % (name, status))
        if status != "detected":
            missed += 1
            print("   ", json.dumps(detail)[:1500])
        else:
            for pid, (rc, viol, _) in detail.items():
                for v in viol[:3]:
                    print("    ", v)
    print("selftest: %d mutants, %d not detected" % (len(patches), missed))
    return 1 if missed else 0
