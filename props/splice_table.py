#!/usr/bin/env python3
"""splice_table.py: regenerate the table of DESIGN.md section 11.9 from seeded/results*.json (props/seeded_table.py)."""
import os, subprocess, sys
V = os.path.dirname(os.path.dirname(os.path.abspath(__file__)))
p = os.path.join(V, "DESIGN.md")
s = open(p).read()
start = s.index("| change | target | what was changed (one line) | caught by (quick checks, exit 1) |")
end = s.index("\n\n", start)
table = subprocess.run([sys.executable, os.path.join(V, "props", "seeded_table.py")], capture_output=True, text=True, check=True).stdout.strip()
open(p, "w").write(s[:start] + table + s[end:])
print("rows:", table.count("\n") - 1)
