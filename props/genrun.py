"""Bounded stand-in for the generator half of C12: run the real generator on the shipped JSON in a scratch copy."""
import os, shutil, subprocess, tempfile

FILES = ["spdxexp/spdxlicenses/get_licenses.go", "spdxexp/spdxlicenses/get_deprecated.go", "spdxexp/spdxlicenses/get_exceptions.go"]


def run(repo, env):
    tmp = tempfile.mkdtemp(prefix="verif_gen_")
    out = []
    try:
        dst = os.path.join(tmp, "repo")
        shutil.copytree(repo, dst, ignore=shutil.ignore_patterns(".git"))
        r = subprocess.run(["go", "run", ".", "extract", "-l", "-e"], cwd=os.path.join(dst, "cmd"), env=env, capture_output=True, text=True, timeout=300)
        if r.returncode != 0:
            return [{"generator": "failed to run", "output": (r.stdout + r.stderr)[-500:]}]
        for f in FILES:
            a = open(os.path.join(repo, f), "rb").read()
            b = open(os.path.join(dst, f), "rb").read()
            if a != b:
                out.append({"file": f, "difference": "the generator's output differs from the committed file (%d vs %d bytes)" % (len(b), len(a))})
    finally:
        shutil.rmtree(tmp, ignore_errors=True)
    return out
