"""Bounded stand-in for the generator half of C12: run the real generator on the shipped JSON in a scratch copy."""
import os, shutil, subprocess, tempfile

FILES = ["spdxexp/spdxlicenses/get_licenses.go", "spdxexp/spdxlicenses/get_deprecated.go", "spdxexp/spdxlicenses/get_exceptions.go"]


def run(repo, env):
    tmp = tempfile.mkdtemp(prefix="verif_gen_")
    out = []
    try:
        dst = os.path.join(tmp, "repo")
        shutil.copytree(repo, dst, ignore=shutil.ignore_patterns(".git"))
        r = subprocess.run(["go", "run", ".", "extract", "-l", "-e"], cwd=os.path.join(dst, "cmd"), env=env, capture_output=True, text=True, timeout=300)
        if r.returncode != 0:
            return [{"generator": "failed to run", "output": (r.stdout + r.stderr)[-500:]}]
        for f in FILES:
            a = open(os.path.join(repo, f), "rb").read()
            b = open(os.path.join(dst, f), "rb").read()
            if a != b:
                out.append({"file": f, "difference": "the generator's output differs from the committed file (%d vs %d bytes)" % (len(b), len(a))})
    finally:
        shutil.rmtree(tmp, ignore_errors=True)
    return out


# ---------------------------------------------------------------------------------------------------------------------
# Other configurations (C12 quantifies over "any future refresh or hand edit" of the JSON): the real generator is built
# once and run on derived JSON configurations; its three output files are compared with an oracle rendering computed here
# from the JSON by the property's rule (non-deprecated license -> active list, deprecated -> deprecated list,
# non-deprecated exception -> exception list, in JSON order; a record without the flag is not deprecated).  BOUNDED: a
# fixed family of configurations, labelled as such in the evidence.
import copy, json


def _split_template(path):
    """header / footer of a committed generated file (everything before the first and after the last entry line)"""
    lines = open(path, encoding="utf-8").read().split("\n")
    idx = [i for i, l in enumerate(lines) if l.startswith('\t\t"') and l.endswith('",')]
    if not idx:
        return None
    return "\n".join(lines[:idx[0]]) + "\n", "\n".join(lines[idx[-1] + 1:])


def _render(tpl, ids):
    return tpl[0] + "".join('\t\t"%s",\n' % i for i in ids) + tpl[1]


def _configs(lic, exc):
    """(name, licenses.json object, exceptions.json object)"""
    out = []

    def both(name, f):
        l2, e2 = copy.deepcopy(lic), copy.deepcopy(exc)
        f(l2["licenses"], "isDeprecatedLicenseId")
        f(e2["exceptions"], "isDeprecatedLicenseId")
        out.append((name, l2, e2))

    def omit_false(rs, k):
        for r in rs:
            if r.get(k) is False:
                del r[k]
    both("false flags omitted", omit_false)

    def null_false(rs, k):
        for r in rs:
            if r.get(k) is False:
                r[k] = None
    both("false flags null", null_false)
    both("records reversed", lambda rs, k: rs.reverse())

    def flip(rs, k):
        for r in rs:
            r[k] = not r.get(k, False)
    both("every flag flipped", flip)

    def dep_first_then_omitted(rs, k):
        rs.sort(key=lambda r: not r.get(k, False))  # deprecated records first (stable)
        omit_false(rs, k)
    both("deprecated records first, false flags omitted", dep_first_then_omitted)

    def extra(rs, k):
        idk = "licenseId" if rs and "licenseId" in rs[0] else "licenseExceptionId"
        rs.insert(0, {idk: "Zz-Verif-New-1.0", k: False, "name": "new record", "seeAlso": [], "unknownField": {"a": [1, 2]}})
        rs.append({idk: "Zz-Verif-Old-0.9", k: True, "name": "old record"})
        rs.insert(len(rs) // 2, {idk: "Zz-Verif-Mid-2.0-only", "name": "no flag at all"})
    both("records added (first, middle without flag, last deprecated)", extra)
    both("three records only", lambda rs, k: rs.__delitem__(slice(3, None)))
    both("no records", lambda rs, k: rs.__delitem__(slice(0, None)))

    def dup_keys(rs, k):
        for r in rs[::7]:
            r["isOsiApproved"] = True
            r["referenceNumber"] = 0
    both("unrelated fields changed", dup_keys)
    return out


def run_configs(repo, env):
    """returns (number of configurations run, list of discrepancies)"""
    tmp = tempfile.mkdtemp(prefix="verif_gencfg_")
    bad = []
    n = 0
    try:
        src = os.path.join(tmp, "src")
        shutil.copytree(repo, src, ignore=shutil.ignore_patterns(".git"))
        gen = os.path.join(tmp, "gen")
        b = subprocess.run(["go", "build", "-o", gen, "."], cwd=os.path.join(src, "cmd"), env=env, capture_output=True, text=True, timeout=300)
        if b.returncode != 0:
            return 0, [{"generator": "does not build", "output": b.stderr[-500:]}]
        lic = json.load(open(os.path.join(repo, "cmd", "licenses.json"), encoding="utf-8"))
        exc = json.load(open(os.path.join(repo, "cmd", "exceptions.json"), encoding="utf-8"))
        tpls = [_split_template(os.path.join(repo, f)) for f in FILES]
        if any(t is None for t in tpls):
            return 0, [{"generator": "a committed generated file has no entry lines"}]
        for name, l2, e2 in _configs(lic, exc):
            n += 1
            d = os.path.join(tmp, "cfg%d" % n)
            os.makedirs(os.path.join(d, "cmd"))
            os.makedirs(os.path.join(d, "spdxexp", "spdxlicenses"))
            json.dump(l2, open(os.path.join(d, "cmd", "licenses.json"), "w", encoding="utf-8"), ensure_ascii=False, indent=2)
            json.dump(e2, open(os.path.join(d, "cmd", "exceptions.json"), "w", encoding="utf-8"), ensure_ascii=False, indent=2)
            r = subprocess.run([gen, "extract", "-l", "-e"], cwd=os.path.join(d, "cmd"), env=env, capture_output=True, text=True, timeout=120)
            if r.returncode != 0:
                bad.append({"configuration": name, "generator": "failed", "output": (r.stdout + r.stderr)[-300:]})
                continue
            dep = lambda rec: rec.get("isDeprecatedLicenseId") is True
            want = [[x["licenseId"] for x in l2["licenses"] if not dep(x)],
                    [x["licenseId"] for x in l2["licenses"] if dep(x)],
                    [x["licenseExceptionId"] for x in e2["exceptions"] if not dep(x)]]
            for f, tpl, ids in zip(FILES, tpls, want):
                try:
                    got = open(os.path.join(d, f), encoding="utf-8").read()
                except OSError:
                    bad.append({"configuration": name, "file": f, "difference": "not written"})
                    continue
                exp = _render(tpl, ids)
                if got != exp:
                    gl = [l.strip().strip('",') for l in got.split("\n") if l.startswith('\t\t"')]
                    extra_ids = [i for i in gl if i not in ids][:3]
                    missing = [i for i in ids if i not in gl][:3]
                    bad.append({"configuration": name, "file": f,
                                "difference": "generator output differs from what the JSON says: %d ids written, %d expected; e.g. wrongly present %s, missing %s"
                                % (len(gl), len(ids), extra_ids, missing)})
    finally:
        shutil.rmtree(tmp, ignore_errors=True)
    return n, bad
