#!/bin/sh
# Builds the verifier offline from files on disk only.
set -e
cd "$(dirname "$0")"
export GOFLAGS=-mod=mod GOPROXY=off GOSUMDB=off GOTOOLCHAIN=local
mkdir -p bin evidence replays
(cd govc && go build -o ../bin/govc .)
echo "govc built: $(pwd)/bin/govc"
