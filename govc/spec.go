package main

// Contract expression language: lexer, parser, AST.
// Go expression syntax for field access, indexing, len, comparison; plus
// ==>, <==>, forall/exists, old(e), result, spec-function application.

import (
	"fmt"
	"strings"
	"unicode"
)

type tokKind int

const (
	tEOF tokKind = iota
	tIdent
	tInt
	tStr
	tOp
)

type stok struct {
	k   tokKind
	s   string
	pos int
}

func lexSpec(src string) ([]stok, error) {
	var out []stok
	i := 0
	for i < len(src) {
		c := src[i]
		switch {
		case c == ' ' || c == '\t' || c == '\n' || c == '\r':
			i++
		case unicode.IsLetter(rune(c)) || c == '_' || c == '$':
			j := i + 1
			for j < len(src) && (unicode.IsLetter(rune(src[j])) || unicode.IsDigit(rune(src[j])) || src[j] == '_' || src[j] == '$' || src[j] == '\'') {
				j++
			}
			out = append(out, stok{tIdent, src[i:j], i})
			i = j
		case c >= '0' && c <= '9':
			j := i + 1
			for j < len(src) && src[j] >= '0' && src[j] <= '9' {
				j++
			}
			out = append(out, stok{tInt, src[i:j], i})
			i = j
		case c == '"':
			j := i + 1
			var b strings.Builder
			for j < len(src) && src[j] != '"' {
				if src[j] == '\\' && j+1 < len(src) {
					j++
					switch src[j] {
					case 'n':
						b.WriteByte('\n')
					case 't':
						b.WriteByte('\t')
					default:
						b.WriteByte(src[j])
					}
					j++
					continue
				}
				b.WriteByte(src[j])
				j++
			}
			if j >= len(src) {
				return nil, fmt.Errorf("unterminated string at %d", i)
			}
			out = append(out, stok{tStr, b.String(), i})
			i = j + 1
		default:
			ops := []string{"<==>", "==>", "::", "==", "!=", "<=", ">=", "&&", "||", "++"}
			matched := false
			for _, op := range ops {
				if strings.HasPrefix(src[i:], op) {
					out = append(out, stok{tOp, op, i})
					i += len(op)
					matched = true
					break
				}
			}
			if matched {
				break
			}
			if strings.ContainsRune("+-*/%<>!()[]{}.,:?|@", rune(c)) {
				out = append(out, stok{tOp, string(c), i})
				i++
				break
			}
			return nil, fmt.Errorf("unexpected character %q at %d in %q", c, i, src)
		}
	}
	out = append(out, stok{tEOF, "", len(src)})
	return out, nil
}

// ---- AST ----

type Expr interface{ String() string }

type (
	EIdent struct{ Name string }
	EInt   struct{ V int64 }
	EStr   struct{ V string }
	EBool  struct{ V bool }
	ENil   struct{}
	EUn    struct {
		Op string
		X  Expr
	}
	EBin struct {
		Op   string
		L, R Expr
	}
	EField struct {
		X Expr
		F string
	}
	EIndex struct{ X, I Expr }
	ESlice struct{ X, Lo, Hi Expr } // Lo/Hi may be nil
	ECall  struct {
		Fn   string
		Args []Expr
	}
	EOld   struct{ X Expr }
	EQuant struct {
		Forall   bool
		Vars     []QVar
		Triggers [][]Expr
		Body     Expr
	}
)

type QVar struct {
	Name string
	Ty   *TypeExpr // nil => int
}

// TypeExpr is the syntax of a type in a contract file.
type TypeExpr struct {
	Kind string // "name", "ptr", "slice", "map"
	Name string
	Elem *TypeExpr
	Key  *TypeExpr
}

func (t *TypeExpr) String() string {
	switch t.Kind {
	case "ptr":
		return "*" + t.Elem.String()
	case "slice":
		return "[]" + t.Elem.String()
	case "seq":
		return "seq[" + t.Elem.String() + "]"
	case "map":
		return "map[" + t.Key.String() + "]" + t.Elem.String()
	}
	return t.Name
}

func (e *EIdent) String() string { return e.Name }
func (e *EInt) String() string   { return fmt.Sprint(e.V) }
func (e *EStr) String() string   { return fmt.Sprintf("%q", e.V) }
func (e *EBool) String() string  { return fmt.Sprint(e.V) }
func (e *ENil) String() string   { return "nil" }
func (e *EUn) String() string    { return e.Op + e.X.String() }
func (e *EBin) String() string   { return "(" + e.L.String() + " " + e.Op + " " + e.R.String() + ")" }
func (e *EField) String() string { return e.X.String() + "." + e.F }
func (e *EIndex) String() string { return e.X.String() + "[" + e.I.String() + "]" }
func (e *ESlice) String() string {
	lo, hi := "", ""
	if e.Lo != nil {
		lo = e.Lo.String()
	}
	if e.Hi != nil {
		hi = e.Hi.String()
	}
	return e.X.String() + "[" + lo + ":" + hi + "]"
}
func (e *ECall) String() string {
	var a []string
	for _, x := range e.Args {
		a = append(a, x.String())
	}
	return e.Fn + "(" + strings.Join(a, ", ") + ")"
}
func (e *EOld) String() string { return "old(" + e.X.String() + ")" }
func (e *EQuant) String() string {
	q := "exists"
	if e.Forall {
		q = "forall"
	}
	var vs []string
	for _, v := range e.Vars {
		if v.Ty != nil {
			vs = append(vs, v.Name+" "+v.Ty.String())
		} else {
			vs = append(vs, v.Name)
		}
	}
	return "(" + q + " " + strings.Join(vs, ", ") + " :: " + e.Body.String() + ")"
}

// ---- parser ----

type sparser struct {
	toks []stok
	p    int
	src  string
}

func (p *sparser) peek() stok { return p.toks[p.p] }
func (p *sparser) next() stok { t := p.toks[p.p]; p.p++; return t }
func (p *sparser) isOp(s string) bool {
	t := p.peek()
	return t.k == tOp && t.s == s
}
func (p *sparser) isIdent(s string) bool {
	t := p.peek()
	return t.k == tIdent && t.s == s
}
func (p *sparser) expectOp(s string) error {
	if !p.isOp(s) {
		return fmt.Errorf("expected %q at %d, found %q in %q", s, p.peek().pos, p.peek().s, p.src)
	}
	p.p++
	return nil
}

func parseSpecExpr(src string) (Expr, error) {
	toks, err := lexSpec(src)
	if err != nil {
		return nil, err
	}
	p := &sparser{toks: toks, src: src}
	e, err := p.parseExpr()
	if err != nil {
		return nil, err
	}
	if p.peek().k != tEOF {
		return nil, fmt.Errorf("trailing input at %d (%q) in %q", p.peek().pos, p.peek().s, src)
	}
	return e, nil
}

func (p *sparser) parseExpr() (Expr, error) {
	if p.isIdent("forall") || p.isIdent("exists") {
		return p.parseQuant()
	}
	return p.parseIff()
}

func (p *sparser) parseQuant() (Expr, error) {
	q := &EQuant{Forall: p.next().s == "forall"}
	for {
		t := p.next()
		if t.k != tIdent {
			return nil, fmt.Errorf("expected bound variable at %d in %q", t.pos, p.src)
		}
		v := QVar{Name: t.s}
		if !p.isOp(",") && !p.isOp("::") && !p.isOp("{") {
			ty, err := p.parseType()
			if err != nil {
				return nil, err
			}
			v.Ty = ty
		}
		q.Vars = append(q.Vars, v)
		if p.isOp(",") {
			p.next()
			continue
		}
		break
	}
	for p.isOp("{") {
		p.next()
		var trig []Expr
		for {
			e, err := p.parseIff()
			if err != nil {
				return nil, err
			}
			trig = append(trig, e)
			if p.isOp(",") {
				p.next()
				continue
			}
			break
		}
		if err := p.expectOp("}"); err != nil {
			return nil, err
		}
		q.Triggers = append(q.Triggers, trig)
	}
	if err := p.expectOp("::"); err != nil {
		return nil, err
	}
	b, err := p.parseExpr()
	if err != nil {
		return nil, err
	}
	q.Body = b
	return q, nil
}

func (p *sparser) parseType() (*TypeExpr, error) {
	if p.isOp("*") {
		p.next()
		e, err := p.parseType()
		if err != nil {
			return nil, err
		}
		return &TypeExpr{Kind: "ptr", Elem: e}, nil
	}
	if p.isOp("[") {
		p.next()
		if err := p.expectOp("]"); err != nil {
			return nil, err
		}
		e, err := p.parseType()
		if err != nil {
			return nil, err
		}
		return &TypeExpr{Kind: "slice", Elem: e}, nil
	}
	t := p.next()
	if t.k != tIdent {
		return nil, fmt.Errorf("expected type at %d in %q", t.pos, p.src)
	}
	if t.s == "seq" {
		if err := p.expectOp("["); err != nil {
			return nil, err
		}
		e, err := p.parseType()
		if err != nil {
			return nil, err
		}
		if err := p.expectOp("]"); err != nil {
			return nil, err
		}
		return &TypeExpr{Kind: "seq", Elem: e}, nil
	}
	if t.s == "map" {
		if err := p.expectOp("["); err != nil {
			return nil, err
		}
		k, err := p.parseType()
		if err != nil {
			return nil, err
		}
		if err := p.expectOp("]"); err != nil {
			return nil, err
		}
		v, err := p.parseType()
		if err != nil {
			return nil, err
		}
		return &TypeExpr{Kind: "map", Key: k, Elem: v}, nil
	}
	return &TypeExpr{Kind: "name", Name: t.s}, nil
}

func (p *sparser) parseIff() (Expr, error) {
	l, err := p.parseImp()
	if err != nil {
		return nil, err
	}
	for p.isOp("<==>") {
		p.next()
		r, err := p.parseImp()
		if err != nil {
			return nil, err
		}
		l = &EBin{"<==>", l, r}
	}
	return l, nil
}

func (p *sparser) parseImp() (Expr, error) {
	l, err := p.parseOr()
	if err != nil {
		return nil, err
	}
	if p.isOp("==>") {
		p.next()
		var r Expr
		if p.isIdent("forall") || p.isIdent("exists") {
			r, err = p.parseQuant()
		} else {
			r, err = p.parseImp()
		}
		if err != nil {
			return nil, err
		}
		return &EBin{"==>", l, r}, nil
	}
	return l, nil
}

func (p *sparser) parseOr() (Expr, error) {
	l, err := p.parseAndE()
	if err != nil {
		return nil, err
	}
	for p.isOp("||") {
		p.next()
		var r Expr
		if p.isIdent("forall") || p.isIdent("exists") {
			r, err = p.parseQuant()
		} else {
			r, err = p.parseAndE()
		}
		if err != nil {
			return nil, err
		}
		l = &EBin{"||", l, r}
	}
	return l, nil
}

func (p *sparser) parseAndE() (Expr, error) {
	l, err := p.parseCmp()
	if err != nil {
		return nil, err
	}
	for p.isOp("&&") {
		p.next()
		var r Expr
		if p.isIdent("forall") || p.isIdent("exists") {
			r, err = p.parseQuant()
		} else {
			r, err = p.parseCmp()
		}
		if err != nil {
			return nil, err
		}
		l = &EBin{"&&", l, r}
	}
	return l, nil
}

func (p *sparser) parseCmp() (Expr, error) {
	l, err := p.parseAdd()
	if err != nil {
		return nil, err
	}
	// chained comparisons a <= b < c  ==>  a <= b && b < c
	var res Expr
	for {
		t := p.peek()
		if t.k == tOp && (t.s == "==" || t.s == "!=" || t.s == "<" || t.s == "<=" || t.s == ">" || t.s == ">=") {
			p.next()
			r, err := p.parseAdd()
			if err != nil {
				return nil, err
			}
			c := &EBin{t.s, l, r}
			if res == nil {
				res = c
			} else {
				res = &EBin{"&&", res, c}
			}
			l = r
			continue
		}
		break
	}
	if res != nil {
		return res, nil
	}
	return l, nil
}

func (p *sparser) parseAdd() (Expr, error) {
	l, err := p.parseMul()
	if err != nil {
		return nil, err
	}
	for p.isOp("+") || p.isOp("-") || p.isOp("++") {
		op := p.next().s
		r, err := p.parseMul()
		if err != nil {
			return nil, err
		}
		l = &EBin{op, l, r}
	}
	return l, nil
}

func (p *sparser) parseMul() (Expr, error) {
	l, err := p.parseUnary()
	if err != nil {
		return nil, err
	}
	for p.isOp("*") || p.isOp("/") || p.isOp("%") {
		op := p.next().s
		r, err := p.parseUnary()
		if err != nil {
			return nil, err
		}
		l = &EBin{op, l, r}
	}
	return l, nil
}

func (p *sparser) parseUnary() (Expr, error) {
	if p.isOp("!") || p.isOp("-") {
		op := p.next().s
		x, err := p.parseUnary()
		if err != nil {
			return nil, err
		}
		return &EUn{op, x}, nil
	}
	return p.parsePostfix()
}

func (p *sparser) parsePostfix() (Expr, error) {
	x, err := p.parsePrimary()
	if err != nil {
		return nil, err
	}
	for {
		switch {
		case p.isOp("."):
			p.next()
			t := p.next()
			if t.k != tIdent && t.k != tInt {
				return nil, fmt.Errorf("expected field name at %d in %q", t.pos, p.src)
			}
			x = &EField{x, t.s}
		case p.isOp("["):
			p.next()
			var lo, hi Expr
			if !p.isOp(":") {
				lo, err = p.parseExpr()
				if err != nil {
					return nil, err
				}
			}
			if p.isOp(":") {
				p.next()
				if !p.isOp("]") {
					hi, err = p.parseExpr()
					if err != nil {
						return nil, err
					}
				}
				if err := p.expectOp("]"); err != nil {
					return nil, err
				}
				x = &ESlice{x, lo, hi}
			} else {
				if err := p.expectOp("]"); err != nil {
					return nil, err
				}
				x = &EIndex{x, lo}
			}
		default:
			return x, nil
		}
	}
}

func (p *sparser) parsePrimary() (Expr, error) {
	t := p.next()
	switch t.k {
	case tInt:
		var v int64
		fmt.Sscan(t.s, &v)
		return &EInt{v}, nil
	case tStr:
		return &EStr{t.s}, nil
	case tIdent:
		switch t.s {
		case "true":
			return &EBool{true}, nil
		case "false":
			return &EBool{false}, nil
		case "nil":
			return &ENil{}, nil
		case "old":
			if err := p.expectOp("("); err != nil {
				return nil, err
			}
			x, err := p.parseExpr()
			if err != nil {
				return nil, err
			}
			if err := p.expectOp(")"); err != nil {
				return nil, err
			}
			return &EOld{x}, nil
		}
		if p.isOp("(") {
			p.next()
			var args []Expr
			for !p.isOp(")") {
				a, err := p.parseExpr()
				if err != nil {
					return nil, err
				}
				args = append(args, a)
				if p.isOp(",") {
					p.next()
				} else {
					break
				}
			}
			if err := p.expectOp(")"); err != nil {
				return nil, err
			}
			return &ECall{t.s, args}, nil
		}
		return &EIdent{t.s}, nil
	case tOp:
		if t.s == "(" {
			x, err := p.parseExpr()
			if err != nil {
				return nil, err
			}
			if err := p.expectOp(")"); err != nil {
				return nil, err
			}
			return x, nil
		}
	}
	return nil, fmt.Errorf("unexpected token %q at %d in %q", t.s, t.pos, p.src)
}

// parseParamList parses "a T, b T" (used by pred / spec declarations).
func parseParamList(src string) ([]QVar, error) {
	src = strings.TrimSpace(src)
	if src == "" {
		return nil, nil
	}
	toks, err := lexSpec(src)
	if err != nil {
		return nil, err
	}
	p := &sparser{toks: toks, src: src}
	var out []QVar
	for {
		t := p.next()
		if t.k != tIdent {
			return nil, fmt.Errorf("expected parameter name in %q", src)
		}
		ty, err := p.parseType()
		if err != nil {
			return nil, err
		}
		out = append(out, QVar{Name: t.s, Ty: ty})
		if p.isOp(",") {
			p.next()
			continue
		}
		break
	}
	if p.peek().k != tEOF {
		return nil, fmt.Errorf("trailing input in parameter list %q", src)
	}
	return out, nil
}

func parseTypeString(src string) (*TypeExpr, error) {
	toks, err := lexSpec(src)
	if err != nil {
		return nil, err
	}
	p := &sparser{toks: toks, src: src}
	t, err := p.parseType()
	if err != nil {
		return nil, err
	}
	if p.peek().k != tEOF {
		return nil, fmt.Errorf("trailing input in type %q", src)
	}
	return t, nil
}
