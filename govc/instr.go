package main

// Per-instruction encoding (DESIGN.md Appendix A).

import (
	"fmt"
	"go/token"
	"go/types"
	"strings"

	"golang.org/x/tools/go/ssa"
)

var safetyProps = []string{"C03"}

func (fr *Frame) regElem(ety *Ty) {
	fr.e.p.u.regElem(ety)
}

func (fr *Frame) encodeInstrs(b *ssa.BasicBlock) {
	for _, instr := range b.Instrs {
		if fr.reach == "false" {
			return
		}
		fr.encodeInstr(b, instr)
	}
}

func (fr *Frame) structName(t types.Type) string {
	ty := fr.tyOf(t)
	return ty.Name
}

func (fr *Frame) encodeInstr(b *ssa.BasicBlock, instr ssa.Instruction) {
	vc := fr.vc()
	u := fr.e.p.u
	switch x := instr.(type) {
	case *ssa.DebugRef:
		return
	case *ssa.Phi:
		return // handled at block entry
	case *ssa.Alloc:
		pt := x.Type().(*types.Pointer)
		ty := fr.tyOf(pt)
		switch ty.K {
		case KRef:
			r := fr.bump(ctrStruct(ty.Name))
			si := u.Structs[ty.Name]
			for _, f := range si.Fields {
				srt, _, _ := vc.fieldSort(ty.Name, f.Name)
				h := fr.getMem(fieldMem(ty.Name, f.Name), srt)
				fr.setMem(fieldMem(ty.Name, f.Name), srt, store(h, r, f.Ty.Zero(u)))
			}
			fr.define(x, r, ty)
			fr.pendingGhost = append(fr.pendingGhost, TV{r, ty})
		case KArrPtr:
			fr.regElem(ty.Elem)
			a := fr.bump(ctrArr(ty.Elem))
			m := fr.getMem(elemMem(ty.Elem), elemMemSort(ty.Elem))
			zero := "((as const " + arraySort("Int", ty.Elem.Sort()) + ") " + ty.Elem.Zero(u) + ")"
			fr.setMem(elemMem(ty.Elem), elemMemSort(ty.Elem), store(m, a, zero))
			fr.define(x, a, ty)
		case KPtr:
			fr.regElem(ty.Elem)
			id := fr.bump(ctrCell(ty.Elem))
			srt := arraySort("Int", ty.Elem.Sort())
			m := fr.getMem(cellMem(ty.Elem), srt)
			fr.setMem(cellMem(ty.Elem), srt, store(m, id, ty.Elem.Zero(u)))
			tv := fr.define(x, "(pcell "+id+")", ty)
			fr.addrs[x] = &Addr{k: aCell, E: ty.Elem, id: id}
			_ = tv
		default:
			vc.addErr("%s: unsupported allocation of %s", fr.label, pt)
		}
	case *ssa.FieldAddr:
		if a, ok := fr.addrs[x.X]; ok && a.k == aElem && a.E.K == KStruct {
			// &s[i].f or &local.f where the element / cell holds a struct VALUE: the address is never nil; loads select the
			// field of the stored value (stores through such an address are not modelled)
			st := x.X.Type().Underlying().(*types.Pointer).Elem().Underlying().(*types.Struct)
			na := *a
			na.k = aElemField
			na.T, na.F = a.E.Name, st.Field(x.Field).Name()
			fr.addrs[x] = &na
			return
		}
		xv := fr.val(x.X)
		st := x.X.Type().Underlying().(*types.Pointer).Elem().Underlying().(*types.Struct)
		T := fr.structName(x.X.Type().Underlying().(*types.Pointer).Elem())
		f := st.Field(x.Field).Name()
		fr.oblige("nil-deref", fmt.Sprintf("nil-deref#%d", fr.ord("nil-deref")), safetyProps, not(eq(xv.T, "0")),
			fmt.Sprintf("%s.%s: %s must not be nil", x.X.Name(), f, x.X.Name()), x.Pos(), "")
		fr.assumeHere(not(eq(xv.T, "0")), "nn")
		fr.addrs[x] = &Addr{k: aField, T: T, F: f, obj: xv.T}
		fty := fr.tyOf(st.Field(x.Field).Type())
		if fty.K == KString {
			// may flow as a *string value
			for i, sf := range u.StrFields {
				if sf == T+"."+f {
					fr.vals[x] = TV{fmt.Sprintf("(pfield %d %s)", i+1, xv.T), &Ty{K: KPtr, Elem: tyString}}
				}
			}
		}
	case *ssa.Field:
		xv := fr.val(x.X)
		st := x.X.Type().Underlying().(*types.Struct)
		f := st.Field(x.Field).Name()
		fty := fr.tyOf(st.Field(x.Field).Type())
		fr.define(x, "("+xv.Ty.Name+".."+f+" "+xv.T+")", fty)
	case *ssa.IndexAddr:
		xv := fr.val(x.X)
		iv := fr.val(x.Index)
		switch xv.Ty.K {
		case KSlice:
			fr.regElem(xv.Ty.Elem)
			goal := and("(<= 0 "+iv.T+")", "(< "+iv.T+" (s-len "+xv.T+"))")
			fr.oblige("bounds", fmt.Sprintf("index#%d", fr.ord("index")), safetyProps, goal,
				fmt.Sprintf("%s[%s] in range", x.X.Name(), x.Index.Name()), x.Pos(), "")
			fr.assumeHere(goal, "ix")
			fr.addrs[x] = &Addr{k: aElem, E: xv.Ty.Elem, arr: "(s-arr " + xv.T + ")", idx: iv.T}
		case KArrPtr:
			fr.regElem(xv.Ty.Elem)
			goal := and(not(eq(xv.T, "0")), "(<= 0 "+iv.T+")", fmt.Sprintf("(< %s %d)", iv.T, xv.Ty.N))
			fr.oblige("bounds", fmt.Sprintf("index#%d", fr.ord("index")), safetyProps, goal, "array index in range", x.Pos(), "")
			fr.assumeHere(goal, "ix")
			fr.addrs[x] = &Addr{k: aElem, E: xv.Ty.Elem, arr: xv.T, idx: iv.T}
		default:
			vc.addErr("%s: IndexAddr on %s", fr.label, xv.Ty)
		}
	case *ssa.Index:
		xv := fr.val(x.X)
		iv := fr.val(x.Index)
		if xv.Ty.K != KString {
			vc.addErr("%s: Index on array value unsupported", fr.label)
			return
		}
		goal := and("(<= 0 "+iv.T+")", "(< "+iv.T+" (str.len "+xv.T+"))")
		fr.oblige("bounds", fmt.Sprintf("index#%d", fr.ord("index")), safetyProps, goal,
			fmt.Sprintf("%s[%s] in range", x.X.Name(), x.Index.Name()), x.Pos(), "")
		fr.assumeHere(goal, "ix")
		fr.define(x, "(str.to_code (str.at "+xv.T+" "+iv.T+"))", tyInt)
	case *ssa.Lookup:
		xv := fr.val(x.X)
		iv := fr.val(x.Index)
		switch xv.Ty.K {
		case KString:
			goal := and("(<= 0 "+iv.T+")", "(< "+iv.T+" (str.len "+xv.T+"))")
			fr.oblige("bounds", fmt.Sprintf("index#%d", fr.ord("index")), safetyProps, goal,
				fmt.Sprintf("%s[%s] in range", x.X.Name(), x.Index.Name()), x.Pos(), "")
			fr.assumeHere(goal, "ix")
			fr.define(x, "(str.to_code (str.at "+xv.T+" "+iv.T+"))", tyInt)
		case KMap:
			hs := arraySort("Int", arraySort(xv.Ty.Key.Sort(), "Bool"))
			vs := arraySort("Int", arraySort(xv.Ty.Key.Sort(), xv.Ty.Val.Sort()))
			has := sel(sel(fr.getMem(mapHasMem(xv.Ty), hs), xv.T), iv.T)
			val := sel(sel(fr.getMem(mapValMem(xv.Ty), vs), xv.T), iv.T)
			// reading a nil map is allowed and yields the zero value
			present := and(not(eq(xv.T, "0")), has)
			v := "(ite " + present + " " + val + " " + xv.Ty.Val.Zero(u) + ")"
			if x.CommaOk {
				a := fr.vc().fresh(fr.prefix+x.Name()+"_v", xv.Ty.Val.Sort())
				vc.assume(eq(a, v))
				bb := fr.vc().fresh(fr.prefix+x.Name()+"_ok", "Bool")
				vc.assume(eq(bb, present))
				fr.tuples[x] = []TV{{a, xv.Ty.Val}, {bb, tyBool}}
			} else {
				fr.define(x, v, xv.Ty.Val)
			}
		default:
			vc.addErr("%s: Lookup on %s", fr.label, xv.Ty)
		}
	case *ssa.UnOp:
		switch x.Op {
		case token.MUL:
			fr.encodeLoad(x)
		case token.NOT:
			fr.define(x, not(fr.val(x.X).T), tyBool)
		case token.SUB:
			fr.define(x, "(- "+fr.val(x.X).T+")", tyInt)
		default:
			vc.addErr("%s: unary %s unsupported", fr.label, x.Op)
		}
	case *ssa.Store:
		fr.encodeStore(x)
	case *ssa.BinOp:
		fr.encodeBinOp(x)
	case *ssa.ChangeType:
		v := fr.val(x.X)
		fr.vals[x] = v
		if a, ok := fr.addrs[x.X]; ok {
			fr.addrs[x] = a
		}
	case *ssa.Convert:
		v := fr.val(x.X)
		to := fr.tyOf(x.Type())
		if v.Ty.K == KInt && to.K == KInt {
			vc.note("integer conversions are value-preserving (machine integers treated as mathematical)")
			fr.vals[x] = TV{v.T, to}
		} else if to.K == KString || to.K == KInt {
			// string(byte), []byte <-> string etc.: arbitrary value of the target type
			vc.note("conversions between strings and bytes/runes are over-approximated by an arbitrary value")
			fr.declareVal(x, to)
		} else {
			vc.addErr("%s: conversion %s -> %s unsupported", fr.label, x.X.Type(), x.Type())
		}
	case *ssa.MakeInterface:
		v := fr.val(x.X)
		to := fr.tyOf(x.Type())
		switch {
		case to.K == KErr && v.Ty.K == KErr:
			fr.vals[x] = v
		case to.K == KAny:
			fr.vals[x] = TV{"0", tyAny}
			fr.e.ifaceSrc[x] = x.X
			if _, ok := fr.vals[x.X]; ok {
				fr.ifaceVals[x] = fr.vals[x.X]
			} else {
				fr.ifaceVals[x] = v
			}
		default:
			vc.addErr("%s: MakeInterface %s -> %s unsupported", fr.label, x.X.Type(), x.Type())
		}
	case *ssa.Extract:
		tup, ok := fr.tuples[x.Tuple]
		if !ok || x.Index >= len(tup) {
			vc.addErr("%s: extract from unknown tuple %s", fr.label, x.Tuple.Name())
			return
		}
		fr.vals[x] = tup[x.Index]
	case *ssa.Slice:
		fr.encodeSlice(x)
	case *ssa.MakeSlice:
		ty := fr.tyOf(x.Type())
		fr.regElem(ty.Elem)
		l := fr.val(x.Len)
		c := fr.val(x.Cap)
		goal := and("(<= 0 "+l.T+")", "(<= "+l.T+" "+c.T+")")
		fr.oblige("bounds", fmt.Sprintf("makeslice#%d", fr.ord("makeslice")), safetyProps, goal, "make: 0 <= len <= cap", x.Pos(), "")
		fr.assumeHere(goal, "mk")
		a := fr.bump(ctrArr(ty.Elem))
		m := fr.getMem(elemMem(ty.Elem), elemMemSort(ty.Elem))
		zero := "((as const " + arraySort("Int", ty.Elem.Sort()) + ") " + ty.Elem.Zero(u) + ")"
		fr.setMem(elemMem(ty.Elem), elemMemSort(ty.Elem), store(m, a, zero))
		fr.define(x, "(mk-slice "+a+" "+l.T+" "+c.T+")", ty)
	case *ssa.MakeMap:
		ty := fr.tyOf(x.Type())
		id := fr.bump(ctrMap(ty))
		hs := arraySort("Int", arraySort(ty.Key.Sort(), "Bool"))
		vs := arraySort("Int", arraySort(ty.Key.Sort(), ty.Val.Sort()))
		h := fr.getMem(mapHasMem(ty), hs)
		v := fr.getMem(mapValMem(ty), vs)
		fr.setMem(mapHasMem(ty), hs, store(h, id, "((as const "+arraySort(ty.Key.Sort(), "Bool")+") false)"))
		fr.setMem(mapValMem(ty), vs, store(v, id, "((as const "+arraySort(ty.Key.Sort(), ty.Val.Sort())+") "+ty.Val.Zero(u)+")"))
		fr.define(x, id, ty)
	case *ssa.MapUpdate:
		m := fr.val(x.Map)
		k := fr.val(x.Key)
		v := fr.val(x.Value)
		fr.oblige("nil-map", fmt.Sprintf("nil-map#%d", fr.ord("nil-map")), safetyProps, not(eq(m.T, "0")), "assignment to entry in nil map", x.Pos(), "")
		fr.assumeHere(not(eq(m.T, "0")), "nm")
		hs := arraySort("Int", arraySort(m.Ty.Key.Sort(), "Bool"))
		vs := arraySort("Int", arraySort(m.Ty.Key.Sort(), m.Ty.Val.Sort()))
		h := fr.getMem(mapHasMem(m.Ty), hs)
		vv := fr.getMem(mapValMem(m.Ty), vs)
		fr.setMem(mapHasMem(m.Ty), hs, store(h, m.T, store(sel(h, m.T), k.T, "true")))
		fr.setMem(mapValMem(m.Ty), vs, store(vv, m.T, store(sel(vv, m.T), k.T, fr.coerce(v, m.Ty.Val))))
	case *ssa.MakeClosure:
		fr.closures[x] = x
		fr.vals[x] = TV{"0", &Ty{K: KClosure}}
	case *ssa.Call:
		fr.encodeCall(x)
	case *ssa.If:
		fr.defineGhosts()
		c := fr.val(x.Cond)
		fr.addEdge(b, b.Succs[0], and(fr.reach, c.T))
		fr.addEdge(b, b.Succs[1], and(fr.reach, not(c.T)))
	case *ssa.Jump:
		fr.defineGhosts()
		fr.addEdge(b, b.Succs[0], fr.reach)
	case *ssa.Return:
		fr.encodeReturn(x)
	case *ssa.Panic:
		fr.oblige("panic", fmt.Sprintf("panic#%d", fr.ord("panic")), safetyProps, "false", "explicit panic must be unreachable", x.Pos(), "")
		fr.reach = "false"
	default:
		vc.addErr("%s: instruction %T (%s) is outside the supported subset", fr.label, instr, instr)
	}
}

func (fr *Frame) addEdge(from, to *ssa.BasicBlock, cond string) {
	if li, ok := fr.loops[to]; ok && to.Dominates(from) {
		// back edge: invariant preservation
		phiVals := map[*ssa.Phi]TV{}
		for _, instr := range to.Instrs {
			phi, ok := instr.(*ssa.Phi)
			if !ok {
				break
			}
			ty := fr.tyOf(phi.Type())
			v := fr.val(phi.Edges[predIndex(to, from)])
			phiVals[phi] = TV{fr.coerce(v, ty), ty}
		}
		save := fr.reach
		fr.reach = cond
		var pos token.Pos
		if len(to.Instrs) > 0 {
			pos = to.Instrs[len(to.Instrs)-1].Pos()
		}
		fr.checkInvariants(li, phiVals, fr.st, "preserved", pos)
		fr.checkVariant(li, phiVals, fr.st, pos)
		fr.reach = save
		return
	}
	key := [2]int{from.Index, to.Index}
	if old, ok := fr.edges[key]; ok {
		// both branches of an If lead to the same block
		old.cond = or(old.cond, cond)
		return
	}
	fr.edges[key] = &edge{cond: cond, st: fr.st.clone()}
}

func (fr *Frame) encodeLoad(x *ssa.UnOp) {
	vc := fr.vc()
	u := fr.e.p.u
	ty := fr.tyOf(x.Type())
	if a, ok := fr.addrs[x.X]; ok {
		switch a.k {
		case aField:
			srt, fty, err := vc.fieldSort(a.T, a.F)
			if err != nil {
				vc.addErr("%v", err)
				return
			}
			fr.define(x, sel(fr.getMem(fieldMem(a.T, a.F), srt), a.obj), fty)
		case aElem:
			fr.regElem(a.E)
			m := fr.getMem(elemMem(a.E), elemMemSort(a.E))
			fr.define(x, sel(sel(m, a.arr), a.idx), a.E)
		case aCell:
			m := fr.getMem(cellMem(a.E), arraySort("Int", a.E.Sort()))
			fr.define(x, sel(m, a.id), a.E)
		case aElemField:
			fr.regElem(a.E)
			whole := sel(sel(fr.getMem(elemMem(a.E), elemMemSort(a.E)), a.arr), a.idx)
			fr.define(x, "("+a.T+".."+a.F+" "+whole+")", ty)
		}
		return
	}
	pv := fr.val(x.X)
	switch pv.Ty.K {
	case KRef:
		// whole-struct load
		fr.oblige("nil-deref", fmt.Sprintf("nil-deref#%d", fr.ord("nil-deref")), safetyProps, not(eq(pv.T, "0")),
			fmt.Sprintf("*%s: pointer must not be nil", x.X.Name()), x.Pos(), "")
		fr.assumeHere(not(eq(pv.T, "0")), "nn")
		si := u.Structs[pv.Ty.Name]
		parts := []string{"(mk_" + pv.Ty.Name}
		for _, f := range si.Fields {
			srt, _, _ := vc.fieldSort(pv.Ty.Name, f.Name)
			parts = append(parts, sel(fr.getMem(fieldMem(pv.Ty.Name, f.Name), srt), pv.T))
		}
		if len(si.Fields) == 0 {
			fr.define(x, "mk_"+pv.Ty.Name, ty)
		} else {
			fr.define(x, strings.Join(parts, " ")+")", ty)
		}
	case KPtr:
		fr.oblige("nil-deref", fmt.Sprintf("nil-deref#%d", fr.ord("nil-deref")), safetyProps, not(eq(pv.T, "pnil")),
			fmt.Sprintf("*%s: pointer must not be nil", x.X.Name()), x.Pos(), "")
		fr.assumeHere(not(eq(pv.T, "pnil")), "nn")
		fr.regElem(pv.Ty.Elem)
		tv, err := vc.loadPtr(fr.st, pv)
		if err != nil {
			vc.addErr("%v", err)
			return
		}
		fr.define(x, tv.T, tv.Ty)
	default:
		vc.addErr("%s: load through %s unsupported", fr.label, pv.Ty)
	}
}

func (fr *Frame) encodeStore(x *ssa.Store) {
	vc := fr.vc()
	u := fr.e.p.u
	v := fr.val(x.Val)
	if a, ok := fr.addrs[x.Addr]; ok {
		switch a.k {
		case aField:
			srt, fty, err := vc.fieldSort(a.T, a.F)
			if err != nil {
				vc.addErr("%v", err)
				return
			}
			fr.frameOblige("frame", fr.writableObj(a.T, a.F, a.obj), fmt.Sprintf("write to %s.%s: object is fresh or named in modifies", a.T, a.F), x.Pos())
			h := fr.getMem(fieldMem(a.T, a.F), srt)
			fr.setMem(fieldMem(a.T, a.F), srt, store(h, a.obj, fr.coerce(v, fty)))
		case aElem:
			fr.regElem(a.E)
			fr.frameOblige("frame", fr.writableArr(a.E, a.arr), "write to slice element: backing array is fresh or named in modifies", x.Pos())
			m := fr.getMem(elemMem(a.E), elemMemSort(a.E))
			fr.setMem(elemMem(a.E), elemMemSort(a.E), store(m, a.arr, store(sel(m, a.arr), a.idx, fr.coerce(v, a.E))))
			// make the read-back term available to E-matching (witness for existential facts about the written cell)
			cur := fr.getMem(elemMem(a.E), elemMemSort(a.E))
			vc.seed(sel(sel(cur, a.arr), a.idx), a.E.Sort())
			// redundant with the array theory: the untouched cells, triggered from both sides, so that a fact about a
			// cell of the old array yields the corresponding term of the new one (and back)
			k := fmt.Sprintf("k$%d", vc.nextBound())
			vc.assume(fmt.Sprintf("(forall ((%s Int)) (! (=> (not (= %s %s)) (= %s %s)) :pattern (%s) :pattern (%s)))",
				k, k, a.idx, sel(sel(cur, a.arr), k), sel(sel(m, a.arr), k), sel(sel(cur, a.arr), k), sel(sel(m, a.arr), k)))
		case aCell:
			srt := arraySort("Int", a.E.Sort())
			m := fr.getMem(cellMem(a.E), srt)
			fr.setMem(cellMem(a.E), srt, store(m, a.id, fr.coerce(v, a.E)))
		case aElemField:
			vc.addErr("%s: store to a field of a struct value held in a slice element is not modelled", fr.label)
		}
		return
	}
	pv := fr.val(x.Addr)
	switch pv.Ty.K {
	case KRef:
		fr.oblige("nil-deref", fmt.Sprintf("nil-deref#%d", fr.ord("nil-deref")), safetyProps, not(eq(pv.T, "0")), "store through nil pointer", x.Pos(), "")
		fr.assumeHere(not(eq(pv.T, "0")), "nn")
		si := u.Structs[pv.Ty.Name]
		for _, f := range si.Fields {
			srt, _, _ := vc.fieldSort(pv.Ty.Name, f.Name)
			fr.frameOblige("frame", fr.writableObj(pv.Ty.Name, f.Name, pv.T), fmt.Sprintf("write to %s.%s: object is fresh or named in modifies", pv.Ty.Name, f.Name), x.Pos())
			h := fr.getMem(fieldMem(pv.Ty.Name, f.Name), srt)
			fr.setMem(fieldMem(pv.Ty.Name, f.Name), srt, store(h, pv.T, "("+pv.Ty.Name+".."+f.Name+" "+v.T+")"))
		}
	case KPtr:
		// store through a first-class pointer: only local cells are supported
		fr.oblige("nil-deref", fmt.Sprintf("nil-deref#%d", fr.ord("nil-deref")), safetyProps, not(eq(pv.T, "pnil")), "store through nil pointer", x.Pos(), "")
		fr.assumeHere(not(eq(pv.T, "pnil")), "nn")
		fr.frameOblige("frame", "((_ is pcell) "+pv.T+")", "store through a pointer to a struct field is outside the subset", x.Pos())
		fr.regElem(pv.Ty.Elem)
		srt := arraySort("Int", pv.Ty.Elem.Sort())
		m := fr.getMem(cellMem(pv.Ty.Elem), srt)
		fr.setMem(cellMem(pv.Ty.Elem), srt, store(m, "(pc-id "+pv.T+")", fr.coerce(v, pv.Ty.Elem)))
	default:
		vc.addErr("%s: store through %s unsupported", fr.label, pv.Ty)
	}
}

var frameProps = []string{"C13"}

func (fr *Frame) frameOblige(kind, goal, clause string, pos token.Pos) {
	if goal == "true" {
		return
	}
	// trivially true when the target is syntactically fresh is left to the solver
	props := append([]string(nil), frameProps...)
	if c := fr.topFrame.contract; c != nil {
		seen := map[string]bool{"C13": true}
		for _, cl := range c.Ensures {
			for _, p := range cl.Props {
				if !seen[p] && p != "*" {
					seen[p] = true
					props = append(props, p)
				}
			}
		}
	}
	fr.oblige(kind, fmt.Sprintf("%s#%d", kind, fr.ord(kind)), props, goal, clause, pos, "")
}

func (fr *Frame) encodeBinOp(x *ssa.BinOp) {
	vc := fr.vc()
	l := fr.val(x.X)
	r := fr.val(x.Y)
	ty := fr.tyOf(x.Type())
	lt, rt := l.T, r.T
	// nil constants take the sort of the other side
	if l.Ty.K == KRef && l.Ty.Name == "?nil" {
		lt = r.Ty.Zero(fr.e.p.u)
	}
	if r.Ty.K == KRef && r.Ty.Name == "?nil" {
		rt = l.Ty.Zero(fr.e.p.u)
	}
	isNilConst := func(v ssa.Value) bool {
		c, ok := v.(*ssa.Const)
		return ok && c.Value == nil
	}
	switch x.Op {
	case token.EQL, token.NEQ:
		var t string
		switch {
		case l.Ty.K == KSlice || r.Ty.K == KSlice:
			// slices can only be compared with nil
			sv := l
			if isNilConst(x.X) {
				sv = r
			}
			t = eq("(s-arr "+sv.T+")", "0")
		case l.Ty.K == KErr && !isNilConst(x.X) && !isNilConst(x.Y):
			vc.addErr("%s: comparison of two error values unsupported", fr.label)
			t = "true"
		default:
			t = eq(lt, rt)
		}
		if x.Op == token.NEQ {
			t = not(t)
		}
		fr.define(x, t, tyBool)
	case token.LSS, token.LEQ, token.GTR, token.GEQ:
		op := map[token.Token]string{token.LSS: "<", token.LEQ: "<=", token.GTR: ">", token.GEQ: ">="}[x.Op]
		if l.Ty.K == KString {
			var t string
			switch x.Op {
			case token.LSS:
				t = "(str.< " + lt + " " + rt + ")"
			case token.LEQ:
				t = "(str.<= " + lt + " " + rt + ")"
			case token.GTR:
				t = "(str.< " + rt + " " + lt + ")"
			default:
				t = "(str.<= " + rt + " " + lt + ")"
			}
			fr.define(x, t, tyBool)
		} else {
			fr.define(x, "("+op+" "+lt+" "+rt+")", tyBool)
		}
	case token.ADD:
		if l.Ty.K == KString {
			fr.define(x, "(str.++ "+lt+" "+rt+")", tyString)
		} else {
			vc.note("integers are mathematical (no wrap-around)")
			fr.define(x, "(+ "+lt+" "+rt+")", ty)
		}
	case token.SUB:
		vc.note("integers are mathematical (no wrap-around)")
		fr.define(x, "(- "+lt+" "+rt+")", ty)
	case token.MUL:
		vc.note("integers are mathematical (no wrap-around)")
		fr.define(x, "(* "+lt+" "+rt+")", ty)
	case token.QUO, token.REM:
		fr.oblige("div", fmt.Sprintf("div#%d", fr.ord("div")), safetyProps, not(eq(rt, "0")), "division by zero", x.Pos(), "")
		fr.assumeHere(not(eq(rt, "0")), "dv")
		vc.note("integer division / remainder are over-approximated by an arbitrary value")
		fr.declareVal(x, ty)
	case token.LAND, token.LOR:
		vc.addErr("%s: unexpected logical binop", fr.label)
	default:
		// bit operations and shifts: the result is over-approximated by an arbitrary value of the type (sound for safety
		// and frame obligations; functional clauses that depend on it cannot be proved)
		vc.note("bit operations / shifts are over-approximated by an arbitrary value")
		fr.declareVal(x, ty)
	}
}

func (fr *Frame) encodeSlice(x *ssa.Slice) {
	vc := fr.vc()
	xv := fr.val(x.X)
	var lo, hi, max *TV
	if x.Low != nil {
		v := fr.val(x.Low)
		lo = &v
	}
	if x.High != nil {
		v := fr.val(x.High)
		hi = &v
	}
	if x.Max != nil {
		v := fr.val(x.Max)
		max = &v
	}
	if max != nil {
		vc.addErr("%s: 3-index slice unsupported", fr.label)
		return
	}
	switch xv.Ty.K {
	case KString:
		l, h := "0", "(str.len "+xv.T+")"
		if lo != nil {
			l = lo.T
		}
		if hi != nil {
			h = hi.T
		}
		goal := and("(<= 0 "+l+")", "(<= "+l+" "+h+")", "(<= "+h+" (str.len "+xv.T+"))")
		fr.oblige("bounds", fmt.Sprintf("slice#%d", fr.ord("slice")), safetyProps, goal,
			fmt.Sprintf("%s[lo:hi] within the string", x.X.Name()), x.Pos(), "")
		fr.assumeHere(goal, "sl")
		fr.define(x, "(str.substr "+xv.T+" "+l+" (- "+h+" "+l+"))", tyString)
	case KSlice:
		if lo != nil && lo.T != "0" {
			vc.addErr("%s: slice expression with non-zero low bound on a slice is outside the subset", fr.label)
			return
		}
		h := "(s-len " + xv.T + ")"
		if hi != nil {
			h = hi.T
		}
		goal := and("(<= 0 "+h+")", "(<= "+h+" (s-cap "+xv.T+"))")
		fr.oblige("bounds", fmt.Sprintf("slice#%d", fr.ord("slice")), safetyProps, goal,
			fmt.Sprintf("%s[:hi] within capacity", x.X.Name()), x.Pos(), "")
		fr.assumeHere(goal, "sl")
		fr.define(x, "(mk-slice (s-arr "+xv.T+") "+h+" (s-cap "+xv.T+"))", xv.Ty)
	case KArrPtr:
		if lo != nil && lo.T != "0" {
			vc.addErr("%s: slice expression with non-zero low bound on an array is outside the subset", fr.label)
			return
		}
		n := fmt.Sprint(xv.Ty.N)
		h := n
		if hi != nil {
			h = hi.T
			goal := and("(<= 0 "+h+")", "(<= "+h+" "+n+")")
			fr.oblige("bounds", fmt.Sprintf("slice#%d", fr.ord("slice")), safetyProps, goal, "array slice within bounds", x.Pos(), "")
			fr.assumeHere(goal, "sl")
		}
		fr.define(x, "(mk-slice "+xv.T+" "+h+" "+n+")", &Ty{K: KSlice, Elem: xv.Ty.Elem})
		fr.sliceOfArr[x] = x.X
	default:
		vc.addErr("%s: slice of %s unsupported", fr.label, xv.Ty)
	}
}

// defineGhosts performs the ghost assignments "r.g := def(r)" for the objects this activation allocated in the
// current block and has not defined yet (ghost fields are ordinary ghost state: assigning them is always sound;
// the type invariant then checks that the definition holds for every object).
func (fr *Frame) defineGhosts() {
	if len(fr.pendingGhost) == 0 {
		return
	}
	vc := fr.vc()
	for _, obj := range fr.pendingGhost {
		for _, g := range vc.cs.GhostFields {
			if g.Struct != obj.Ty.Name {
				continue
			}
			srt, gty, err := vc.fieldSort(g.Struct, g.Name)
			if err != nil {
				vc.addErr("ghostfield %s.%s: %v", g.Struct, g.Name, err)
				continue
			}
			env := &SpecEnv{vc: vc, vars: map[string]TV{g.Self: obj}, st: fr.st, old: fr.topFrame.funcEntry}
			tv, err := env.tr(g.Def)
			if err != nil {
				vc.addErr("ghostfield %s.%s: %v", g.Struct, g.Name, err)
				continue
			}
			if tv.Ty.Sort() != gty.Sort() {
				vc.addErr("ghostfield %s.%s: definition has type %s, want %s", g.Struct, g.Name, tv.Ty, gty)
				continue
			}
			h := fr.getMem(fieldMem(g.Struct, g.Name), srt)
			fr.setMem(fieldMem(g.Struct, g.Name), srt, store(h, obj.T, tv.T))
		}
	}
	fr.pendingGhost = nil
}
