package main

// SSA -> verification conditions, passive form with one-directional
// reachability transitions (DESIGN.md section 2.4, Appendix A).

import (
	"fmt"
	"go/token"
	"go/types"
	"sort"
	"strings"

	"golang.org/x/tools/go/ssa"
)

type addrKind int

const (
	aField addrKind = iota
	aElem
	aCell
	aElemField // a field of a struct value stored in a slice / array element (read-only)
)

type Addr struct {
	k    addrKind
	T, F string // aField
	obj  string
	E    *Ty // aElem, aCell: element type
	arr  string
	idx  string
	id   string
}

type LoopInfo struct {
	header     *ssa.BasicBlock
	blocks     map[*ssa.BasicBlock]bool
	ordinal    int
	mod        map[string]string // memory name -> sort
	dirty      map[string]bool   // memories in which the loop may write objects that existed before the loop
	phiEnv     map[string]TV     // invariant names -> header values (filled when the header is encoded)
	entryVals  map[*ssa.Phi]TV
	variant0   string          // value of the loop variant at the header (explicit decreases clause, or derived for a range loop)
	rangePhi   *ssa.Phi        // range loop: the index phi ...
	rangeLen   ssa.Value       // ... and the length it runs up to (evaluated once, before the loop)
	headerPhis map[*ssa.Phi]TV // values of the header phis in the header state
}

type edge struct {
	cond string
	st   State
}

type retRec struct {
	reach string
	vals  []TV
	st    State
}

type nameRef struct {
	v   ssa.Value
	blk *ssa.BasicBlock
	pos token.Pos
}

type Enc struct {
	p  *Program
	vc *VC
	// memory sorts seen so far (shared with vc.sorts)
	nInline   int
	strConsts map[string]bool
	res       *funcResult
	regexOK   map[string]string
	ifaceSrc  map[ssa.Value]ssa.Value
}

type Frame struct {
	e            *Enc
	fn           *ssa.Function
	prefix       string
	top          bool
	depth        int
	vals         map[ssa.Value]TV
	tuples       map[ssa.Value][]TV
	addrs        map[ssa.Value]*Addr
	entry        State // state at activation entry
	funcEntry    State // state at entry of the top-level function (for freshness / frame)
	edges        map[[2]int]*edge
	loops        map[*ssa.BasicBlock]*LoopInfo
	rets         []*retRec
	contract     *FuncContract
	specVars     map[string]TV
	autoDeref    map[string]bool
	names        map[string][]nameRef
	callOrd      map[string]int
	kindOrd      map[string]int
	reach        string
	st           State
	label        string // obligation name prefix
	topFrame     *Frame
	closures     map[ssa.Value]*ssa.MakeClosure
	ifaceVals    map[ssa.Value]TV
	sliceOfArr   map[ssa.Value]ssa.Value
	pendingGhost []TV
}

func (fr *Frame) vc() *VC { return fr.e.vc }

func (fr *Frame) ord(kind string) int {
	fr.kindOrd[kind]++
	return fr.kindOrd[kind] - 1
}

// transition: the code continues only in states satisfying cond.
func (fr *Frame) assumeHere(cond string, what string) {
	if cond == "true" {
		return
	}
	nr := fr.vc().fresh("R_"+what, "Bool")
	fr.vc().assume(implies(nr, and(fr.reach, cond)))
	fr.reach = nr
}

func (fr *Frame) oblige(kind, name string, props []string, goal string, clause string, pos token.Pos, note string) {
	fr.vc().oblige(&Oblig{Name: fr.label + "/" + name, Kind: kind, Props: append([]string(nil), props...), Guard: fr.reach, Goal: goal,
		Clause: clause, Where: fr.e.p.pos(pos), Note: note})
}

func (fr *Frame) specEnv(st State) *SpecEnv {
	return &SpecEnv{vc: fr.vc(), vars: fr.specVars, st: st, old: fr.topFrame.funcEntry, autoDeref: fr.autoDeref}
}

// ---- memory access helpers ----

func (fr *Frame) getMem(name, sort string) string {
	fr.vc().sorts[name] = sort
	return fr.vc().mem(fr.st, name, sort)
}

func (fr *Frame) setMem(name, sort, term string) {
	fr.vc().sorts[name] = sort
	c := fr.vc().fresh(name, sort)
	fr.vc().assume(eq(c, term))
	fr.st[name] = c
}

func (fr *Frame) counter(name string) string { return fr.getMem(name, "Int") }

func (fr *Frame) bump(name string) string {
	cur := fr.counter(name)
	fr.setMem(name, "Int", "(+ "+cur+" 1)")
	return cur
}

// ---- value lookup ----

func (fr *Frame) tyOf(t types.Type) *Ty {
	ty, err := fr.e.p.u.tyOf(t)
	if err != nil {
		fr.vc().addErr("%s: %v", fr.e.p.fnName(fr.fn), err)
		return tyInt
	}
	return ty
}

func (fr *Frame) val(v ssa.Value) TV {
	if tv, ok := fr.vals[v]; ok {
		return tv
	}
	switch x := v.(type) {
	case *ssa.Const:
		ty := fr.tyOf(x.Type())
		if x.Value == nil {
			if ty.K == KTuple {
				return TV{"0", tyInt}
			}
			return TV{ty.Zero(fr.e.p.u), ty}
		}
		switch ty.K {
		case KInt:
			return TV{smtInt(x.Int64()), ty}
		case KBool:
			if constantBool(x) {
				return TV{"true", ty}
			}
			return TV{"false", ty}
		case KString:
			s := constantString(x)
			fr.e.strConsts[s] = true
			return TV{smtString(s), ty}
		}
		fr.vc().addErr("unsupported constant %s", x)
		return TV{"0", tyInt}
	case *ssa.Function:
		return TV{"0", &Ty{K: KClosure}}
	case *ssa.Global:
		fr.vc().addErr("%s: use of package-level variable %s (outside subset)", fr.e.p.fnName(fr.fn), x.Name())
		return TV{"0", tyInt}
	}
	fr.vc().addErr("%s: value %s (%T) used before definition", fr.e.p.fnName(fr.fn), v.Name(), v)
	return TV{"0", tyInt}
}

func (fr *Frame) define(v ssa.Value, term string, ty *Ty) TV {
	name := fr.prefix + v.Name()
	c := fr.vc().fresh(name, ty.Sort())
	fr.vc().assume(eq(c, term))
	tv := TV{c, ty}
	fr.vals[v] = tv
	return tv
}

func (fr *Frame) declareVal(v ssa.Value, ty *Ty) TV {
	name := fr.prefix + v.Name()
	c := fr.vc().fresh(name, ty.Sort())
	tv := TV{c, ty}
	fr.vals[v] = tv
	return tv
}

// wfFacts returns the runtime facts every value of a type satisfies in a state.
func (fr *Frame) wfFacts(tv TV, st State) string {
	vc := fr.vc()
	switch tv.Ty.K {
	case KSlice:
		c := vc.mem(st, ctrArr(tv.Ty.Elem), "Int")
		a, l, cp := "(s-arr "+tv.T+")", "(s-len "+tv.T+")", "(s-cap "+tv.T+")"
		return and("(<= 0 "+a+")", "(< "+a+" "+c+")", "(<= 0 "+l+")", "(<= "+l+" "+cp+")",
			implies(eq(a, "0"), eq(cp, "0")))
	case KRef:
		c := vc.mem(st, ctrStruct(tv.Ty.Name), "Int")
		return and("(<= 0 "+tv.T+")", "(< "+tv.T+" "+c+")")
	case KMap:
		c := vc.mem(st, ctrMap(tv.Ty), "Int")
		return and("(<= 0 "+tv.T+")", "(< "+tv.T+" "+c+")")
	case KArrPtr:
		c := vc.mem(st, ctrArr(tv.Ty.Elem), "Int")
		return and("(<= 0 "+tv.T+")", "(< "+tv.T+" "+c+")")
	case KPtr:
		c := vc.mem(st, ctrCell(tv.Ty.Elem), "Int")
		f := implies("((_ is pcell) "+tv.T+")", and("(< 0 (pc-id "+tv.T+"))", "(< (pc-id "+tv.T+") "+c+")"))
		return f
	case KStruct:
		si := vc.u.Structs[tv.Ty.Name]
		var fs []string
		for _, fi := range si.Fields {
			fs = append(fs, fr.wfFacts(TV{"(" + tv.Ty.Name + ".." + fi.Name + " " + tv.T + ")", fi.Ty}, st))
		}
		return and(fs...)
	}
	return "true"
}

// memWF states the runtime facts about values stored in a (root or havocked) memory version.
func (fr *Frame) memWF(name string, st State) string {
	vc := fr.vc()
	switch {
	case strings.HasPrefix(name, "H."):
		parts := strings.SplitN(name[2:], ".", 2)
		srt, fty, err := vc.fieldSort(parts[0], parts[1])
		if err != nil {
			return "true"
		}
		switch fty.K {
		case KSlice, KRef, KMap:
			h := vc.mem(st, name, srt)
			r := fmt.Sprintf("r$%d", vc.nextBound())
			body := fr.wfFacts(TV{sel(h, r), fty}, st)
			return fmt.Sprintf("(forall ((%s Int)) (! %s :pattern (%s)))", r, body, sel(h, r))
		}
	case strings.HasPrefix(name, "M."):
		ety := fr.e.p.u.ElemTys[name[2:]]
		if ety == nil {
			return "true"
		}
		switch ety.K {
		case KSlice, KRef, KMap, KStruct:
			m := vc.mem(st, name, elemMemSort(ety))
			a := fmt.Sprintf("a$%d", vc.nextBound())
			i := fmt.Sprintf("i$%d", vc.nextBound())
			body := fr.wfFacts(TV{sel(sel(m, a), i), ety}, st)
			if body == "true" {
				return "true"
			}
			return fmt.Sprintf("(forall ((%s Int) (%s Int)) (! %s :pattern (%s)))", a, i, body, sel(sel(m, a), i))
		}
	case strings.HasPrefix(name, "C."):
		ety := fr.e.p.u.ElemTys[name[2:]]
		if ety == nil {
			return "true"
		}
		switch ety.K {
		case KSlice, KRef, KMap:
			m := vc.mem(st, name, arraySort("Int", ety.Sort()))
			a := fmt.Sprintf("c$%d", vc.nextBound())
			body := fr.wfFacts(TV{sel(m, a), ety}, st)
			return fmt.Sprintf("(forall ((%s Int)) (! %s :pattern (%s)))", a, body, sel(m, a))
		}
	}
	return "true"
}

// ---- top level ----

func constantBool(c *ssa.Const) bool { return c.Value.String() == "true" }
func constantString(c *ssa.Const) string {
	s := c.Value.ExactString()
	// ExactString is quoted Go syntax
	var out string
	if _, err := fmt.Sscanf(s, "%q", &out); err == nil {
		return out
	}
	return strings.Trim(s, "\"")
}

type funcResult struct {
	vc        *VC
	fn        *ssa.Function
	name      string
	inlined   map[string]int
	externals map[string]bool
	callees   map[string]bool
}

func (p *Program) encodeTop(fn *ssa.Function) *funcResult {
	name := p.fnName(fn)
	vc := newVC(p.u, p.cs, name)
	e := &Enc{p: p, vc: vc, strConsts: map[string]bool{}, regexOK: map[string]string{}, ifaceSrc: map[ssa.Value]ssa.Value{}, res: &funcResult{vc: vc, fn: fn, name: name,
		inlined: map[string]int{}, externals: map[string]bool{}, callees: map[string]bool{}}}
	fr := e.newFrame(fn, "", true, 0)
	fr.topFrame = fr
	fr.label = name
	fr.contract = p.contractOf(fn)
	fr.st = State{}
	fr.entry = fr.st.clone()
	fr.funcEntry = fr.entry
	vc.declare("R0", "Bool")
	fr.reach = "R0"
	// parameters
	var facts []string
	for _, prm := range fn.Params {
		ty := fr.tyOf(prm.Type())
		c := "p_" + sanitize(prm.Name())
		vc.declare(c, ty.Sort())
		tv := TV{c, ty}
		fr.vals[prm] = tv
		fr.specVars[prm.Name()] = tv
		facts = append(facts, fr.wfFacts(tv, fr.st))
	}
	for _, fv := range fn.FreeVars {
		ty := fr.tyOf(fv.Type())
		c := "fv_" + sanitize(fv.Name())
		vc.declare(c, ty.Sort())
		tv := TV{c, ty}
		fr.vals[fv] = tv
		fr.specVars[fv.Name()] = tv
		fr.autoDeref[fv.Name()] = true
		facts = append(facts, fr.wfFacts(tv, fr.st), not(eq(c, "pnil")))
	}
	fr.assumeHere(and(facts...), "params")
	// ghost parameters (universally quantified) and ghost definitions at entry
	if fr.contract != nil {
		for _, gp := range fr.contract.GhostParams {
			ty, err := p.u.tyOfTypeExpr(gp.Ty, p.cs)
			if err != nil {
				vc.addErr("%s: ghostparam %s: %v", name, gp.Name, err)
				continue
			}
			c := "g_" + sanitize(gp.Name)
			vc.declare(c, ty.Sort())
			fr.specVars[gp.Name] = TV{c, ty}
		}
		for _, gl := range fr.contract.GhostLets {
			tv, err := fr.specEnv(fr.st).tr(gl.E)
			if err != nil {
				vc.addErr("%s: ghostlet %s: %v", name, gl.Name, err)
				continue
			}
			c := vc.fresh("gl_"+gl.Name, tv.Ty.Sort())
			vc.assume(eq(c, tv.T))
			fr.specVars[gl.Name] = TV{c, tv.Ty}
		}
	}
	// preconditions
	if fr.contract != nil {
		env := fr.specEnv(fr.st)
		var pre []string
		for _, c := range fr.contract.Requires {
			tv, err := env.tr(c.E)
			if err != nil {
				vc.addErr("%s:%d: requires: %v", c.File, c.Line, err)
				continue
			}
			if tv.Ty.K != KBool {
				vc.addErr("%s:%d: requires is not boolean", c.File, c.Line)
				continue
			}
			pre = append(pre, tv.T)
		}
		fr.assumeHere(and(pre...), "pre")
	}
	// type invariants hold at entry
	fr.assumeHere(fr.typeInvs(fr.st), "tinv")
	fr.encodeBody()
	// roots: counters start at >= 1, stored values are well-formed (runtime facts)
	e.finishRoots(fr)
	return e.res
}

func (e *Enc) newFrame(fn *ssa.Function, prefix string, top bool, depth int) *Frame {
	return &Frame{e: e, fn: fn, prefix: prefix, top: top, depth: depth, vals: map[ssa.Value]TV{}, tuples: map[ssa.Value][]TV{},
		addrs: map[ssa.Value]*Addr{}, edges: map[[2]int]*edge{}, loops: map[*ssa.BasicBlock]*LoopInfo{}, specVars: map[string]TV{},
		autoDeref: map[string]bool{}, closures: map[ssa.Value]*ssa.MakeClosure{}, ifaceVals: map[ssa.Value]TV{}, sliceOfArr: map[ssa.Value]ssa.Value{}, names: map[string][]nameRef{}, callOrd: map[string]int{}, kindOrd: map[string]int{}}
}

// finishRoots adds the assumptions about root memory versions.  They are
// emitted last but must be visible to every obligation, so they go first.
func (e *Enc) finishRoots(fr *Frame) {
	vc := e.vc
	var pre []string
	names := make([]string, 0, len(vc.roots))
	for n := range vc.roots {
		names = append(names, n)
	}
	sort.Strings(names)
	done := map[string]bool{}
	for iter := 0; iter < 3; iter++ { // memWF may create further roots (counters)
		names = names[:0]
		for n := range vc.roots {
			if !done[n] {
				names = append(names, n)
			}
		}
		sort.Strings(names)
		for _, n := range names {
			done[n] = true
			if strings.HasPrefix(n, "N") {
				pre = append(pre, "(<= 1 "+vc.roots[n]+")")
			} else {
				f := fr.memWF(n, State{})
				if f != "true" {
					pre = append(pre, f)
				}
			}
		}
	}
	pre = append(pre, vc.unfoldInstances()...)
	pre = append(pre, vc.classAxioms...)
	vc.rootAssum = pre
}

// typeInvs returns the conjunction of all type invariants in a state.
func (fr *Frame) typeInvs(st State) string {
	vc := fr.vc()
	var out []string
	for _, g := range vc.cs.GhostFields {
		// every object satisfies the definition of its ghost field
		ti := &TypeInv{Struct: g.Struct, Self: g.Self, Clause: &Clause{Kind: "typeinv", E: &EBin{"==", &EField{&EIdent{g.Self}, g.Name}, g.Def}, Src: g.Self + "." + g.Name + " == " + g.Src}}
		f, err := fr.typeInvFormula(ti, st)
		if err != nil {
			vc.addErr("ghostfield %s.%s: %v", g.Struct, g.Name, err)
			continue
		}
		out = append(out, f)
	}
	for _, ti := range vc.cs.TypeInvs {
		f, err := fr.typeInvFormula(ti, st)
		if err != nil {
			vc.addErr("%s:%d: typeinv: %v", ti.Clause.File, ti.Clause.Line, err)
			continue
		}
		out = append(out, f)
	}
	return and(out...)
}

func (fr *Frame) typeInvFormula(ti *TypeInv, st State) (string, error) {
	vc := fr.vc()
	si := vc.u.Structs[ti.Struct]
	if si == nil {
		return "", fmt.Errorf("unknown struct %s", ti.Struct)
	}
	r := fmt.Sprintf("r$%d", vc.nextBound())
	env := &SpecEnv{vc: vc, vars: map[string]TV{ti.Self: {r, &Ty{K: KRef, Name: ti.Struct}}}, st: st, old: fr.topFrame.funcEntry}
	body, err := env.tr(ti.Clause.E)
	if err != nil {
		return "", err
	}
	n := vc.mem(st, ctrStruct(ti.Struct), "Int")
	var pats []string
	for _, f := range si.Fields {
		srt, _, _ := vc.fieldSort(ti.Struct, f.Name)
		pats = append(pats, ":pattern ("+sel(vc.mem(st, fieldMem(ti.Struct, f.Name), srt), r)+")")
	}
	// ghost fields are deliberately not used as triggers: a recursive ghost definition (the tree of a node mentions the
	// trees of its children) would otherwise unfold without bound
	return fmt.Sprintf("(forall ((%s Int)) (! (=> (and (< 0 %s) (< %s %s)) %s) %s))", r, r, r, n, body.T, strings.Join(pats, " ")), nil
}

// typeInvMems: memories the type invariants read (conservative: all fields of
// the structs that have invariants and of structs they point to).
func (e *Enc) typeInvTouches(mod map[string]string) bool {
	if len(e.vc.cs.TypeInvs) == 0 && len(e.vc.cs.GhostFields) == 0 {
		return false
	}
	for m := range mod {
		if strings.HasPrefix(m, "H.") {
			return true
		}
	}
	return false
}

// ---- body ----

func rpo(fn *ssa.Function) []*ssa.BasicBlock {
	seen := map[*ssa.BasicBlock]bool{}
	var post []*ssa.BasicBlock
	var dfs func(b *ssa.BasicBlock)
	dfs = func(b *ssa.BasicBlock) {
		seen[b] = true
		for i := len(b.Succs) - 1; i >= 0; i-- {
			s := b.Succs[i]
			if s.Dominates(b) { // back edge
				continue
			}
			if !seen[s] {
				dfs(s)
			}
		}
		post = append(post, b)
	}
	dfs(fn.Blocks[0])
	for i, j := 0, len(post)-1; i < j; i, j = i+1, j-1 {
		post[i], post[j] = post[j], post[i]
	}
	return post
}

func (fr *Frame) findLoops() {
	var headers []*ssa.BasicBlock
	for _, b := range fr.fn.Blocks {
		for _, s := range b.Succs {
			if s.Dominates(b) {
				if _, ok := fr.loops[s]; !ok {
					fr.loops[s] = &LoopInfo{header: s, blocks: map[*ssa.BasicBlock]bool{s: true}, mod: map[string]string{}}
					headers = append(headers, s)
				}
				// natural loop of back edge b -> s
				li := fr.loops[s]
				var stack []*ssa.BasicBlock
				if !li.blocks[b] {
					li.blocks[b] = true
					stack = append(stack, b)
				}
				for len(stack) > 0 {
					x := stack[len(stack)-1]
					stack = stack[:len(stack)-1]
					for _, p := range x.Preds {
						if !li.blocks[p] {
							li.blocks[p] = true
							stack = append(stack, p)
						}
					}
				}
			}
		}
	}
	sort.Slice(headers, func(i, j int) bool { return headers[i].Index < headers[j].Index })
	for i, h := range headers {
		fr.loops[h].ordinal = i
	}
	for _, li := range fr.loops {
		li.dirty = map[string]bool{}
		inside := map[ssa.Value]bool{}
		for b := range li.blocks {
			for _, ins := range b.Instrs {
				if v, ok := ins.(ssa.Value); ok {
					inside[v] = true
				}
			}
		}
		for b := range li.blocks {
			for _, ins := range b.Instrs {
				fr.e.p.instrMod(ins, li.mod, fr.e)
				fr.e.p.instrDirty(ins, li.dirty, inside, 0)
			}
		}
	}
}

func (fr *Frame) encodeBody() {
	fn := fr.fn
	if fr.top {
		fr.findLoops()
	}
	// collect source names
	for _, b := range fn.Blocks {
		for _, ins := range b.Instrs {
			if d, ok := ins.(*ssa.DebugRef); ok {
				if obj := d.Object(); obj != nil {
					fr.names[obj.Name()] = append(fr.names[obj.Name()], nameRef{d.X, b, d.Pos()})
				}
			}
		}
	}
	order := rpo(fn)
	for _, b := range order {
		if b.Index == 0 {
			// entry: reach and state already set
		} else if li, ok := fr.loops[b]; ok {
			fr.enterLoopHeader(b, li)
		} else {
			if !fr.enterBlock(b) {
				continue
			}
		}
		fr.encodeInstrs(b)
	}
}

// enterBlock merges the incoming edges of an ordinary block. Returns false if unreachable.
func (fr *Frame) enterBlock(b *ssa.BasicBlock) bool {
	vc := fr.vc()
	var ins []*edge
	var preds []*ssa.BasicBlock
	for _, p := range b.Preds {
		if e, ok := fr.edges[[2]int{p.Index, b.Index}]; ok {
			ins = append(ins, e)
			preds = append(preds, p)
		}
	}
	if len(ins) == 0 {
		return false
	}
	if len(ins) == 1 {
		fr.reach = ins[0].cond
		fr.st = ins[0].st.clone()
	} else {
		r := vc.fresh(fmt.Sprintf("R_b%d", b.Index), "Bool")
		var conds []string
		for _, e := range ins {
			conds = append(conds, e.cond)
		}
		vc.assume(implies(r, or(conds...)))
		fr.reach = r
		fr.st = fr.mergeStates(ins, fmt.Sprintf("b%d", b.Index))
	}
	// phis
	for _, instr := range b.Instrs {
		phi, ok := instr.(*ssa.Phi)
		if !ok {
			break
		}
		ty := fr.tyOf(phi.Type())
		var term string
		first := true
		// build ite chain over present edges
		for k := len(preds) - 1; k >= 0; k-- {
			idx := predIndex(b, preds[k])
			v := fr.val(phi.Edges[idx])
			vt := fr.coerce(v, ty)
			if first {
				term = vt
				first = false
			} else {
				term = "(ite " + ins[k].cond + " " + vt + " " + term + ")"
			}
		}
		fr.define(phi, term, ty)
		if tup, ok := fr.tuples[phi.Edges[0]]; ok {
			_ = tup
			vc.addErr("phi over tuples unsupported")
		}
	}
	return true
}

func predIndex(b, p *ssa.BasicBlock) int {
	for i, q := range b.Preds {
		if q == p {
			return i
		}
	}
	return -1
}

// coerce adapts nil constants to the sort of the destination type.
func (fr *Frame) coerce(v TV, ty *Ty) string {
	if v.Ty != nil && v.Ty.K == KRef && v.Ty.Name == "?nil" {
		return ty.Zero(fr.e.p.u)
	}
	return v.T
}

func (fr *Frame) mergeStates(ins []*edge, tag string) State {
	vc := fr.vc()
	keys := map[string]bool{}
	for _, e := range ins {
		for k := range e.st {
			keys[k] = true
		}
	}
	out := State{}
	var ks []string
	for k := range keys {
		ks = append(ks, k)
	}
	sort.Strings(ks)
	for _, k := range ks {
		srt := vc.sorts[k]
		same := true
		first := vc.mem(ins[0].st, k, srt)
		for _, e := range ins[1:] {
			if vc.mem(e.st, k, srt) != first {
				same = false
			}
		}
		if same {
			out[k] = first
			continue
		}
		term := vc.mem(ins[len(ins)-1].st, k, srt)
		for i := len(ins) - 2; i >= 0; i-- {
			term = "(ite " + ins[i].cond + " " + vc.mem(ins[i].st, k, srt) + " " + term + ")"
		}
		c := vc.fresh(k+"@"+tag, srt)
		vc.assume(eq(c, term))
		out[k] = c
	}
	return out
}

// invariantEnv binds the names an invariant may use at a loop header.
func (fr *Frame) invariantEnv(li *LoopInfo, phiVals map[*ssa.Phi]TV) map[string]TV {
	vars := map[string]TV{}
	for k, v := range fr.specVars {
		vars[k] = v
	}
	// values of enclosing loops' header phis and named locals that dominate the header
	for name, refs := range fr.names {
		if _, isParam := fr.specVars[name]; isParam {
			continue
		}
		var cand ssa.Value
		ambiguous := false
		for _, r := range refs {
			def := defBlock(r.v)
			if def == nil {
				continue
			}
			if li.blocks[def] && def != li.header {
				continue // defined inside the loop body
			}
			if _, isPhi := r.v.(*ssa.Phi); isPhi && def == li.header {
				continue // handled below
			}
			if !(def.Dominates(li.header)) {
				continue
			}
			if cand != nil && cand != r.v {
				// prefer the definition closest to the header (dominated by the other)
				cd := defBlock(cand)
				if cd != def {
					if cd.Dominates(def) {
						cand = r.v
					}
					continue
				}
				ambiguous = true
			} else {
				cand = r.v
			}
		}
		if cand != nil && !ambiguous {
			if tv, ok := fr.vals[cand]; ok {
				vars[name] = tv
			} else if c, ok := cand.(*ssa.Const); ok {
				vars[name] = fr.val(c)
			}
		}
	}
	for _, instr := range li.header.Instrs {
		phi, ok := instr.(*ssa.Phi)
		if !ok {
			break
		}
		tv := phiVals[phi]
		if phi.Comment == "rangeindex" {
			vars["$i"] = TV{"(+ " + tv.T + " 1)", tyInt}
			vars[fmt.Sprintf("$i%d", li.ordinal)] = TV{"(+ " + tv.T + " 1)", tyInt}
		} else if phi.Comment != "" {
			vars[phi.Comment] = tv
		}
	}
	// enclosing loops: their header phis keep their (already declared) values
	for h, lo := range fr.loops {
		if lo == li || !lo.blocks[li.header] {
			continue
		}
		for _, instr := range h.Instrs {
			phi, ok := instr.(*ssa.Phi)
			if !ok {
				break
			}
			tv, ok := fr.vals[phi]
			if !ok {
				continue
			}
			if phi.Comment == "rangeindex" {
				vars[fmt.Sprintf("$i%d", lo.ordinal)] = TV{"(+ " + tv.T + " 1)", tyInt}
			} else if phi.Comment != "" {
				if _, dup := vars[phi.Comment]; !dup {
					vars[phi.Comment] = tv
				}
			}
		}
	}
	return vars
}

func defBlock(v ssa.Value) *ssa.BasicBlock {
	switch x := v.(type) {
	case ssa.Instruction:
		return x.Block()
	case *ssa.Parameter:
		return x.Parent().Blocks[0]
	case *ssa.FreeVar:
		return x.Parent().Blocks[0]
	case *ssa.Const:
		return nil
	}
	return nil
}

func (fr *Frame) loopClauses(li *LoopInfo) []*Clause {
	if fr.contract == nil {
		return nil
	}
	lc := fr.contract.Loops[li.ordinal]
	if lc == nil {
		return nil
	}
	return lc.Invs
}

// checkInvariants emits entry / preservation obligations for a loop header reached over one edge.
func (fr *Frame) checkInvariants(li *LoopInfo, phiVals map[*ssa.Phi]TV, st State, kind string, pos token.Pos) {
	vc := fr.vc()
	vars := fr.invariantEnv(li, phiVals)
	env := &SpecEnv{vc: vc, vars: vars, st: st, old: fr.topFrame.funcEntry}
	for i, c := range fr.loopClauses(li) {
		tv, err := env.tr(c.E)
		if err != nil {
			vc.addErr("%s:%d: invariant: %v", c.File, c.Line, err)
			continue
		}
		lbl := c.Label
		if lbl == "" {
			lbl = fmt.Sprint(i)
		}
		fr.oblige("invariant-"+kind, fmt.Sprintf("loop%d/inv-%s:%s", li.ordinal, kind, lbl), c.Props, tv.T, c.Src, pos, "")
	}
	if fr.e.typeInvTouches(li.mod) {
		fr.oblige("typeinv", fmt.Sprintf("loop%d/typeinv-%s", li.ordinal, kind), []string{"*"}, fr.typeInvs(st), "type invariants", pos, "")
	}
}

func (fr *Frame) enterLoopHeader(b *ssa.BasicBlock, li *LoopInfo) {
	vc := fr.vc()
	var ins []*edge
	var preds []*ssa.BasicBlock
	for _, p := range b.Preds {
		if b.Dominates(p) {
			continue
		}
		if e, ok := fr.edges[[2]int{p.Index, b.Index}]; ok {
			ins = append(ins, e)
			preds = append(preds, p)
		}
	}
	if len(ins) == 0 {
		fr.reach = "false"
		fr.st = State{}
		return
	}
	// entry obligations, per entry edge
	for k, e := range ins {
		phiVals := map[*ssa.Phi]TV{}
		for _, instr := range b.Instrs {
			phi, ok := instr.(*ssa.Phi)
			if !ok {
				break
			}
			ty := fr.tyOf(phi.Type())
			v := fr.val(phi.Edges[predIndex(b, preds[k])])
			phiVals[phi] = TV{fr.coerce(v, ty), ty}
		}
		fr.reach = e.cond
		fr.st = e.st
		fr.checkInvariants(li, phiVals, e.st, "entry", b.Instrs[0].Pos())
	}
	var entryReach string
	var entrySt State
	if len(ins) == 1 {
		entryReach = ins[0].cond
		entrySt = ins[0].st.clone()
	} else {
		var conds []string
		for _, e := range ins {
			conds = append(conds, e.cond)
		}
		entryReach = or(conds...)
		entrySt = fr.mergeStates(ins, fmt.Sprintf("pre%d", b.Index))
	}
	// havoc
	st := entrySt.clone()
	var facts []string
	var mods []string
	for m := range li.mod {
		mods = append(mods, m)
	}
	sort.Strings(mods)
	for _, m := range mods {
		srt := li.mod[m]
		vc.sorts[m] = srt
		old := vc.mem(entrySt, m, srt)
		c := vc.fresh(m+fmt.Sprintf("@loop%d", li.ordinal), srt)
		st[m] = c
		if strings.HasPrefix(m, "N") {
			facts = append(facts, "(<= "+old+" "+c+")")
		}
	}
	for _, m := range mods {
		if !strings.HasPrefix(m, "N") {
			facts = append(facts, fr.memWF(m, st))
			facts = append(facts, fr.activationFrame(m, st))
			if !li.dirty[m] {
				// every write of the loop to this memory goes to objects allocated inside the loop
				// (syntactic check, see instrDirty): objects that existed at loop entry are unchanged
				facts = append(facts, fr.loopFrame(m, entrySt, st))
			}
		}
	}
	phiVals := map[*ssa.Phi]TV{}
	for _, instr := range b.Instrs {
		phi, ok := instr.(*ssa.Phi)
		if !ok {
			break
		}
		ty := fr.tyOf(phi.Type())
		tv := fr.declareVal(phi, ty)
		phiVals[phi] = tv
		facts = append(facts, fr.wfFacts(tv, st))
		if phi.Comment == "rangeindex" {
			facts = append(facts, "(<= (- 1) "+tv.T+")")
		}
	}
	vars := fr.invariantEnv(li, phiVals)
	li.phiEnv = vars
	env := &SpecEnv{vc: vc, vars: vars, st: st, old: fr.topFrame.funcEntry}
	type scopedInv struct {
		f    string
		tags []string
	}
	var scopedInvs []scopedInv
	for _, c := range fr.loopClauses(li) {
		tv, err := env.tr(c.E)
		if err != nil {
			continue // already reported
		}
		if hasProp(c.Props, "scoped") {
			// an invariant marked scoped is assumed at the loop head only for the obligations of its property / group
			scopedInvs = append(scopedInvs, scopedInv{tv.T, c.Props})
			continue
		}
		facts = append(facts, tv.T)
	}
	if fr.e.typeInvTouches(li.mod) {
		facts = append(facts, fr.typeInvs(st))
	}
	fr.headerVariant(li, env, phiVals)
	r := vc.fresh(fmt.Sprintf("R_loop%d", li.ordinal), "Bool")
	vc.assume(implies(r, and(append([]string{entryReach}, facts...)...)))
	for _, si := range scopedInvs {
		vc.assumeScoped(implies(r, si.f), si.tags)
	}
	fr.reach = r
	fr.st = st
}

// activationFrame: objects that existed at function entry and are not named
// in the modifies clause are unchanged in st (justified by the per-store frame obligations).
func (fr *Frame) activationFrame(m string, st State) string {
	vc := fr.vc()
	top := fr.topFrame
	srt := vc.sorts[m]
	cur := vc.mem(st, m, srt)
	old := vc.mem(top.funcEntry, m, srt)
	if cur == old {
		return "true"
	}
	switch {
	case strings.HasPrefix(m, "H."):
		parts := strings.SplitN(m[2:], ".", 2)
		n0 := vc.mem(top.funcEntry, ctrStruct(parts[0]), "Int")
		r := fmt.Sprintf("r$%d", vc.nextBound())
		exc := top.modifiableField(parts[0], parts[1], r)
		return fmt.Sprintf("(forall ((%s Int)) (! (=> (and (< 0 %s) (< %s %s) %s) (= %s %s)) :pattern (%s)))", r, r, r, n0, not(exc), sel(cur, r), sel(old, r), sel(cur, r))
	case strings.HasPrefix(m, "M."):
		ety := fr.e.p.u.ElemTys[m[2:]]
		if ety == nil {
			return "true"
		}
		n0 := vc.mem(top.funcEntry, ctrArr(ety), "Int")
		a := fmt.Sprintf("a$%d", vc.nextBound())
		exc := top.modifiableArr(ety, a)
		return fmt.Sprintf("(forall ((%s Int)) (! (=> (and (< 0 %s) (< %s %s) %s) (= %s %s)) :pattern (%s)))", a, a, a, n0, not(exc), sel(cur, a), sel(old, a), sel(cur, a))
	case strings.HasPrefix(m, "C."):
		ety := fr.e.p.u.ElemTys[m[2:]]
		if ety == nil {
			return "true"
		}
		n0 := vc.mem(top.funcEntry, ctrCell(ety), "Int")
		a := fmt.Sprintf("c$%d", vc.nextBound())
		return fmt.Sprintf("(forall ((%s Int)) (! (=> (and (< 0 %s) (< %s %s)) (= %s %s)) :pattern (%s)))", a, a, a, n0, sel(cur, a), sel(old, a), sel(cur, a))
	case strings.HasPrefix(m, "MH."), strings.HasPrefix(m, "MV."):
		n0 := vc.mem(top.funcEntry, "NM."+m[strings.Index(m, ".")+1:], "Int")
		a := fmt.Sprintf("m$%d", vc.nextBound())
		return fmt.Sprintf("(forall ((%s Int)) (! (=> (and (< 0 %s) (< %s %s)) (= %s %s)) :pattern (%s)))", a, a, a, n0, sel(cur, a), sel(old, a), sel(cur, a))
	}
	return "true"
}

// modifiableField: SMT condition that object r (entry-state) is named by a modifies entry for field T.f.
func (top *Frame) modifiableField(T, f, r string) string {
	if top.contract == nil {
		return "false"
	}
	var alts []string
	env := top.specEnv(top.funcEntry)
	for _, m := range top.contract.Modifies {
		fe, ok := m.(*EField)
		if !ok || fe.F != f {
			continue
		}
		tv, err := env.tr(fe.X)
		if err != nil || tv.Ty.K != KRef || tv.Ty.Name != T {
			continue
		}
		alts = append(alts, eq(r, tv.T))
	}
	return or(alts...)
}

// modifiableArr: SMT condition that array a (of element type ety) is named by a modifies entry.
func (top *Frame) modifiableArr(ety *Ty, a string) string {
	if top.contract == nil {
		return "false"
	}
	var alts []string
	env := top.specEnv(top.funcEntry)
	vc := top.vc()
	for _, m := range top.contract.Modifies {
		c, ok := m.(*ECall)
		if !ok || len(c.Args) != 1 {
			continue
		}
		tv, err := env.tr(c.Args[0])
		if err != nil {
			vc.addErr("modifies: %v", err)
			continue
		}
		switch c.Fn {
		case "arr":
			if tv.Ty.K == KSlice && sameTy(tv.Ty.Elem, ety) {
				alts = append(alts, and(eq(a, "(s-arr "+tv.T+")"), not(eq(a, "0"))))
			}
		case "arrs":
			if tv.Ty.K == KSlice && tv.Ty.Elem.K == KSlice && sameTy(tv.Ty.Elem.Elem, ety) {
				i := fmt.Sprintf("i$%d", vc.nextBound())
				m := vc.mem(top.funcEntry, elemMem(tv.Ty.Elem), elemMemSort(tv.Ty.Elem))
				inner := sel(sel(m, "(s-arr "+tv.T+")"), i)
				alts = append(alts, fmt.Sprintf("(exists ((%s Int)) (! (and (<= 0 %s) (< %s (s-len %s)) (= %s (s-arr %s))) :pattern (%s)))", i, i, i, tv.T, a, inner, inner))
			}
		}
	}
	return or(alts...)
}

// writable: the current activation may write object/array id (fresh since function entry, or named in modifies).
func (fr *Frame) writableObj(T, f, r string) string {
	top := fr.topFrame
	n0 := fr.vc().mem(top.funcEntry, ctrStruct(T), "Int")
	return or("(<= "+n0+" "+r+")", top.modifiableField(T, f, r))
}

func (fr *Frame) writableArr(ety *Ty, a string) string {
	top := fr.topFrame
	n0 := fr.vc().mem(top.funcEntry, ctrArr(ety), "Int")
	return or("(<= "+n0+" "+a+")", top.modifiableArr(ety, a))
}

// loopFrame: objects of memory m that existed at loop entry are unchanged at the header.
func (fr *Frame) loopFrame(m string, pre, st State) string {
	vc := fr.vc()
	srt := vc.sorts[m]
	cur := vc.mem(st, m, srt)
	old := vc.mem(pre, m, srt)
	if cur == old {
		return "true"
	}
	var ctr string
	switch {
	case strings.HasPrefix(m, "H."):
		parts := strings.SplitN(m[2:], ".", 2)
		ctr = ctrStruct(parts[0])
	case strings.HasPrefix(m, "M."):
		ety := fr.e.p.u.ElemTys[m[2:]]
		if ety == nil {
			return "true"
		}
		ctr = ctrArr(ety)
	case strings.HasPrefix(m, "C."):
		ety := fr.e.p.u.ElemTys[m[2:]]
		if ety == nil {
			return "true"
		}
		ctr = ctrCell(ety)
	case strings.HasPrefix(m, "MH."), strings.HasPrefix(m, "MV."):
		ctr = "NM." + m[strings.Index(m, ".")+1:]
	default:
		return "true"
	}
	n0 := vc.mem(pre, ctr, "Int")
	r := fmt.Sprintf("r$%d", vc.nextBound())
	return fmt.Sprintf("(forall ((%s Int)) (! (=> (< %s %s) (= %s %s)) :pattern (%s)))", r, r, n0, sel(cur, r), sel(old, r), sel(cur, r))
}

// ---- termination: loop variants -------------------------------------------------------------------------------

func (fr *Frame) loopDecr(li *LoopInfo) *Clause {
	if fr.contract == nil {
		return nil
	}
	if lc := fr.contract.Loops[li.ordinal]; lc != nil {
		return lc.Decr
	}
	return nil
}

// countingShape proposes a variant for a counting loop from its SSA: the header ends in `if X < Y` (or <=, >, >=) where
// one side is a header phi i (or i + c) that every back edge advances by a positive (negative) constant and the other side
// is loop-invariant - a value defined outside the loop, or len(v) of such a value (a slice VALUE cannot change).  The
// proposal is `bound - i` (`i - bound` when counting down).  It covers the range loops (i = phi[-1, i+1]; if i+1 < n) and
// the plain index loops.  The proposal is only a candidate: the obligation `0 <= V(header) && V(back edge) < V(header)` is
// still discharged by the solver, so a wrong guess fails instead of passing.
func (fr *Frame) countingShape(li *LoopInfo) (phi *ssa.Phi, bound ssa.Value, down bool) {
	if len(li.header.Instrs) == 0 {
		return nil, nil, false
	}
	iff, ok := li.header.Instrs[len(li.header.Instrs)-1].(*ssa.If)
	if !ok {
		return nil, nil, false
	}
	cmp, ok := iff.Cond.(*ssa.BinOp)
	if !ok {
		return nil, nil, false
	}
	// the loop continues on the true branch
	if len(li.header.Succs) != 2 || !li.blocks[li.header.Succs[0]] || li.blocks[li.header.Succs[1]] {
		return nil, nil, false
	}
	headerPhi := func(v ssa.Value) *ssa.Phi {
		if b, ok := v.(*ssa.BinOp); ok && (b.Op == token.ADD || b.Op == token.SUB) {
			if _, isC := b.Y.(*ssa.Const); isC {
				v = b.X
			}
		}
		if p, ok := v.(*ssa.Phi); ok && p.Block() == li.header {
			return p
		}
		return nil
	}
	invariant := func(v ssa.Value) bool {
		if _, ok := v.(*ssa.Const); ok {
			return true
		}
		if c, ok := v.(*ssa.Call); ok {
			if b, ok := c.Call.Value.(*ssa.Builtin); ok && b.Name() == "len" && len(c.Call.Args) == 1 {
				v = c.Call.Args[0]
				if _, isPhi := v.(*ssa.Phi); isPhi {
					return false
				}
			}
		}
		d := defBlock(v)
		return d != nil && !li.blocks[d] || d == nil
	}
	var x, y ssa.Value
	switch cmp.Op {
	case token.LSS, token.LEQ:
		x, y, down = cmp.X, cmp.Y, false
	case token.GTR, token.GEQ:
		x, y, down = cmp.X, cmp.Y, true
	default:
		return nil, nil, false
	}
	p := headerPhi(x)
	if p == nil || !invariant(y) {
		// the counter may be on the right: n > i
		if q := headerPhi(y); q != nil && invariant(x) {
			p, y, down = q, x, !down
		} else {
			return nil, nil, false
		}
	}
	// every back edge advances the counter by a constant of the right sign
	for k, pr := range li.header.Preds {
		if !li.header.Dominates(pr) {
			continue
		}
		step, ok := p.Edges[k].(*ssa.BinOp)
		if !ok || step.X != ssa.Value(p) || (step.Op != token.ADD && step.Op != token.SUB) {
			return nil, nil, false
		}
		c, ok := step.Y.(*ssa.Const)
		if !ok || c.Value == nil {
			return nil, nil, false
		}
		n := c.Int64()
		if step.Op == token.SUB {
			n = -n
		}
		if (!down && n <= 0) || (down && n >= 0) {
			return nil, nil, false
		}
	}
	return p, y, down
}

// headerVariant evaluates an explicit loop variant (decreases clause) in the (havocked) header state.
func (fr *Frame) headerVariant(li *LoopInfo, env *SpecEnv, phiVals map[*ssa.Phi]TV) {
	li.variant0, li.rangePhi, li.rangeLen = "", nil, nil
	li.headerPhis = phiVals
	if dc := fr.loopDecr(li); dc != nil {
		tv, err := env.tr(dc.E)
		if err != nil {
			fr.vc().addErr("%s:%d: decreases: %v", dc.File, dc.Line, err)
			return
		}
		if tv.Ty.K != KInt {
			fr.vc().addErr("%s:%d: decreases is not an integer", dc.File, dc.Line)
			return
		}
		li.variant0 = tv.T
	}
}

// checkVariant: at a back edge the variant was non-negative at the header and is now strictly smaller.
func (fr *Frame) checkVariant(li *LoopInfo, phiVals map[*ssa.Phi]TV, st State, pos token.Pos) {
	vc := fr.vc()
	name := fmt.Sprintf("loop%d/variant", li.ordinal)
	if dc := fr.loopDecr(li); dc != nil {
		if li.variant0 == "" {
			return // already reported
		}
		env := &SpecEnv{vc: vc, vars: fr.invariantEnv(li, phiVals), st: st, old: fr.topFrame.funcEntry}
		tv, err := env.tr(dc.E)
		if err != nil {
			vc.addErr("%s:%d: decreases: %v", dc.File, dc.Line, err)
			return
		}
		fr.oblige("variant", name, dc.Props, and("(<= 0 "+li.variant0+")", "(< "+tv.T+" "+li.variant0+")"), "decreases "+dc.Src, pos, "")
		return
	}
	if phi, bound, down := fr.countingShape(li); phi != nil {
		// derived variant: all header values are defined by now (the bound may be a len(...) computed in the header)
		b, ok := fr.vals[bound]
		if !ok {
			if c, isC := bound.(*ssa.Const); isC {
				b, ok = fr.val(c), true
			}
		}
		p0, ok0 := li.headerPhis[phi]
		if ok && ok0 {
			v0 := "(- " + b.T + " " + p0.T + ")"
			v1 := "(- " + b.T + " " + phiVals[phi].T + ")"
			if down {
				v0 = "(- " + p0.T + " " + b.T + ")"
				v1 = "(- " + phiVals[phi].T + " " + b.T + ")"
			}
			fr.oblige("variant", name, []string{"C03"}, and("(<= 0 "+v0+")", "(< "+v1+" "+v0+")"), "counting loop: distance of the counter from its bound decreases", pos, "derived")
			return
		}
	}
	fr.oblige("variant", name+"-missing", []string{"C03"}, "false", "a loop that is not a range loop needs a decreases clause", pos, "")
}
