package main

// Discharging obligations: one SMT-LIB script per obligation, solver portfolio.

import (
	"bytes"
	"context"
	"fmt"
	"os"
	"os/exec"
	"path/filepath"
	"strings"
	"sync"
	"time"
)

type Verdict struct {
	Oblig    *Oblig
	Status   string // proved, failed-sat, failed-unknown, error
	Backend  string
	Ms       int64
	SMTBytes int
	Model    string
	Output   string
	Script   string
	Tried    []string
}

func containsQuant(s string) bool {
	return strings.Contains(s, "(forall ") || strings.Contains(s, "(exists ")
}

// script builds the SMT-LIB text of one obligation.
func (vc *VC) script(o *Oblig, prelude string, axioms []string, wantModel bool) (string, bool) {
	return vc.scriptMode(o, prelude, axioms, wantModel, false)
}

// scriptMode with stripped=true weakens every assumption by removing its quantified parts (see strip.go).
func (vc *VC) scriptMode(o *Oblig, prelude string, axioms []string, wantModel bool, stripped bool) (string, bool) {
	var b strings.Builder
	body := &strings.Builder{}
	for _, d := range vc.decls {
		body.WriteString(d)
		body.WriteByte('\n')
	}
	_ = o.nDecl
	emit := func(a string) {
		if stripped {
			a = stripAssumption(a)
			if a == "true" {
				return
			}
		}
		body.WriteString("(assert " + a + ")\n")
	}
	for _, a := range axioms {
		emit(a)
	}
	for _, a := range vc.rootAssum {
		emit(a)
	}
	for _, a := range vc.assum[:o.nAssum] {
		emit(a)
	}
	body.WriteString("(assert " + o.Guard + ")\n")
	body.WriteString("(assert (not " + o.Goal + "))\n")
	quant := containsQuant(body.String())
	if wantModel {
		b.WriteString("(set-option :produce-models true)\n")
	}
	b.WriteString(prelude)
	b.WriteString(body.String())
	b.WriteString("(check-sat)\n")
	if wantModel {
		b.WriteString("(get-model)\n")
	}
	return b.String(), quant
}

type solverCfg struct {
	name string
	argv []string
}

func solversFor(quant bool, tier string) []solverCfg {
	if quant {
		return []solverCfg{
			{"z3-new/ematch", []string{"z3-new", "smt.mbqi=false", "auto_config=false", "-smt2"}},
			{"z3/ematch", []string{"z3", "smt.mbqi=false", "auto_config=false", "-smt2"}},
		}
	}
	return []solverCfg{
		{"z3-new/qf", []string{"z3-new", "-smt2"}},
		{"z3/qf", []string{"z3", "-smt2"}},
		{"cvc5/qf", []string{"cvc5", "--lang=smt2", "--strings-exp"}},
	}
}

func runSolver(cfg solverCfg, file string, timeout time.Duration) (status string, out string, ms int64) {
	ctx, cancel := context.WithTimeout(context.Background(), timeout)
	defer cancel()
	argv := append([]string{}, cfg.argv[1:]...)
	if strings.HasPrefix(cfg.argv[0], "z3") {
		argv = append(argv, fmt.Sprintf("-T:%d", int(timeout.Seconds())))
	} else {
		argv = append(argv, fmt.Sprintf("--tlimit=%d", timeout.Milliseconds()))
	}
	argv = append(argv, file)
	cmd := exec.CommandContext(ctx, cfg.argv[0], argv...)
	var buf bytes.Buffer
	cmd.Stdout = &buf
	cmd.Stderr = &buf
	t0 := time.Now()
	_ = cmd.Run()
	ms = time.Since(t0).Milliseconds()
	out = buf.String()
	first := ""
	for _, l := range strings.Split(out, "\n") {
		l = strings.TrimSpace(l)
		if l == "unsat" || l == "sat" || l == "unknown" || l == "timeout" {
			first = l
			break
		}
	}
	switch first {
	case "unsat":
		return "unsat", out, ms
	case "sat":
		return "sat", out, ms
	case "unknown", "timeout":
		return "unknown", out, ms
	}
	if ctx.Err() != nil {
		return "timeout", out, ms
	}
	return "error", out, ms
}

type Prover struct {
	workdir string
	timeout time.Duration
	tier    string
	seed    int
	keep    bool
}

func (pr *Prover) discharge(vc *VC, o *Oblig, prelude string, axioms []string) *Verdict {
	v := &Verdict{Oblig: o}
	if len(vc.errs) > 0 {
		v.Status = "error"
		v.Output = "function outside the supported subset / contract error: " + strings.Join(vc.errs, "; ")
		return v
	}
	script, quant := vc.script(o, prelude, axioms, false)
	if pr.seed != 0 {
		script = fmt.Sprintf("(set-option :random-seed %d)\n", pr.seed) + script
	}
	v.SMTBytes = len(script)
	if len(script) > 4<<20 {
		v.Status = "error"
		v.Output = fmt.Sprintf("VC too large (%d bytes)", len(script))
		return v
	}
	file := filepath.Join(pr.workdir, sanitize(o.Name)+".smt2")
	if err := os.WriteFile(file, []byte(script), 0o644); err != nil {
		v.Status = "error"
		v.Output = err.Error()
		return v
	}
	v.Script = file
	sawSat := false
	cfgs := solversFor(quant, pr.tier)
	if o.Kind == "canary" {
		cfgs = cfgs[:1]
	}
	for _, cfg := range cfgs {
		to := pr.timeout
		if o.Kind == "canary" && to > 2*time.Second {
			to = 2 * time.Second // a vacuous context is refuted at once; anything slower is "not refuted"
		}
		st, out, ms := runSolver(cfg, file, to)
		v.Ms += ms
		v.Tried = append(v.Tried, cfg.name+":"+st)
		switch st {
		case "unsat":
			v.Status = "proved"
			v.Backend = cfg.name
			if !pr.keep {
				os.Remove(file)
			}
			return v
		case "sat":
			if !quant {
				// definite counterexample of the VC: fetch a model
				sawSat = true
				v.Backend = cfg.name
				ms2, _ := vc.script(o, prelude, axioms, true)
				mf := file + ".model.smt2"
				os.WriteFile(mf, []byte(ms2), 0o644)
				_, mout, _ := runSolver(cfg, mf, pr.timeout)
				v.Model = mout
				os.Remove(mf)
			}
			v.Output = out
		case "error":
			v.Status = "error"
			v.Output = cfg.name + ": " + out
			return v
		default:
			v.Output = out
		}
		if sawSat {
			break
		}
	}
	if !sawSat && quant && o.Kind != "canary" && !containsQuant(o.Goal) {
		// second strategy: the goal is quantifier-free; weaken the assumptions to their quantifier-free parts and
		// use the solvers' complete procedures (strings: cvc5).  unsat here proves the original obligation.
		s2, _ := vc.scriptMode(o, prelude, axioms, false, true)
		f2 := file + ".qf.smt2"
		if err := os.WriteFile(f2, []byte(s2), 0o644); err == nil {
			cfgs2 := solversFor(false, pr.tier)
			cfgs2 = []solverCfg{cfgs2[2], cfgs2[0]} // cvc5 first: it is the one that decides the string obligations
			for _, cfg := range cfgs2 {
				st, _, ms := runSolver(cfg, f2, pr.timeout)
				v.Ms += ms
				v.Tried = append(v.Tried, cfg.name+"/stripped:"+st)
				if st == "unsat" {
					v.Status = "proved"
					v.Backend = cfg.name + "/stripped"
					os.Remove(f2)
					if !pr.keep {
						os.Remove(file)
					}
					return v
				}
			}
			if !pr.keep {
				os.Remove(f2)
			}
		}
	}
	if sawSat {
		v.Status = "failed-sat"
	} else {
		v.Status = "failed-unknown"
	}
	return v
}

// dischargeAll runs the obligations on all cores.
func (pr *Prover) dischargeAll(jobs []func() *Verdict) []*Verdict {
	out := make([]*Verdict, len(jobs))
	var wg sync.WaitGroup
	sem := make(chan struct{}, 16)
	for i, j := range jobs {
		wg.Add(1)
		sem <- struct{}{}
		go func(i int, j func() *Verdict) {
			defer wg.Done()
			out[i] = j()
			<-sem
		}(i, j)
	}
	wg.Wait()
	return out
}
