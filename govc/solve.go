package main

// Discharging obligations: one SMT-LIB script per obligation, solver portfolio.

import (
	"bytes"
	"context"
	"fmt"
	"math/rand"
	"os"
	"os/exec"
	"path/filepath"
	"runtime"
	"strings"
	"sync"
	"time"
)

var shuffleSeed int

type Verdict struct {
	Oblig    *Oblig
	Status   string // proved, failed-sat, failed-unknown, error
	Backend  string
	Ms       int64
	SMTBytes int
	Model    string
	Output   string
	Script   string
	Tried    []string
}

func containsQuant(s string) bool {
	return strings.Contains(s, "(forall ") || strings.Contains(s, "(exists ")
}

// script builds the SMT-LIB text of one obligation.
func (vc *VC) script(o *Oblig, prelude string, axioms []string, wantModel bool) (string, bool) {
	return vc.scriptMode(o, prelude, axioms, wantModel, false)
}

// scriptMode with stripped=true weakens every assumption by removing its quantified parts (see strip.go).
func (vc *VC) scriptMode(o *Oblig, prelude string, axioms []string, wantModel bool, stripped bool) (string, bool) {
	return vc.scriptMode2(o, prelude, axioms, wantModel, stripped, false)
}

// scriptMode2 with sliced=true (implies stripped) additionally keeps only the assumptions connected to the goal (strip.go).
func (vc *VC) scriptMode2(o *Oblig, prelude string, axioms []string, wantModel bool, stripped bool, sliced bool) (string, bool) {
	var b strings.Builder
	body := &strings.Builder{}
	for _, d := range vc.decls {
		body.WriteString(d)
		body.WriteByte('\n')
	}
	_ = o.nDecl
	var defs []*unaryDef
	var kept []string
	emit := func(a string) {
		if stripped {
			if d := asUnaryDefMode(a, o.Kind == "lemma"); d != nil {
				defs = append(defs, d)
			}
			a = stripAssumption(a)
			if a == "true" {
				return
			}
			kept = append(kept, a)
			if sliced {
				return
			}
		}
		body.WriteString("(assert " + a + ")\n")
	}
	for _, a := range axioms {
		if tags, ok := vc.axiomTags[a]; ok && o.Kind != "canary" && !hasProp(o.Props, "*") && !scopedVisible(o, tags) {
			continue // a definition marked scoped is given only to the obligations of its property / group
		}
		emit(a)
	}
	for _, a := range vc.rootAssum {
		emit(a)
	}
	if strings.Contains(o.Goal, "str.") || strings.Contains(o.Goal, "classRun") {
		for _, a := range vc.strFacts {
			emit(a)
		}
	}
	vis := append([]string(nil), vc.assum[:o.nAssum]...)
	if len(vc.assumTags) > 0 && o.Kind != "canary" && !hasProp(o.Props, "*") {
		kept := vis[:0]
		for i, a := range vc.assum[:o.nAssum] {
			if tags, ok := vc.assumTags[i]; ok {
				if !scopedVisible(o, tags) {
					continue
				}
			}
			kept = append(kept, a)
		}
		vis = kept
	}
	if shuffleSeed != 0 {
		// robustness experiment: the same assumptions in a pseudo-random order (no effect on meaning)
		r := rand.New(rand.NewSource(int64(shuffleSeed)))
		r.Shuffle(len(vis), func(i, j int) { vis[i], vis[j] = vis[j], vis[i] })
	}
	for _, a := range vis {
		emit(a)
	}
	if stripped && len(defs) > 0 {
		// the quantifier-free weakening keeps the ground instances of unary definitions (opaque spec predicates such as
		// isIdName) at the terms that occur: cvc5 then decides string goals that need the definition
		for _, inst := range groundInstancesMode(defs, append(append([]string(nil), kept...), stripAssumption("(not "+o.Goal+")")), 300, o.Kind == "lemma") {
			if inst != "true" {
				if sliced {
					kept = append(kept, inst)
				} else {
					body.WriteString("(assert " + inst + ")\n")
				}
			}
		}
	}
	if sliced {
		universe := map[string]bool{}
		for _, d := range vc.decls {
			f := strings.Fields(d)
			if len(f) >= 2 && (f[0] == "(declare-fun" || f[0] == "(declare-const") {
				universe[f[1]] = true
			}
		}
		for _, a := range sliceAssumptions(kept, o.Goal+" "+o.Guard, universe) {
			body.WriteString("(assert " + a + ")\n")
		}
	}
	body.WriteString("(assert " + o.Guard + ")\n")
	body.WriteString("(assert (not " + o.Goal + "))\n")
	quant := containsQuant(body.String())
	if wantModel {
		b.WriteString("(set-option :produce-models true)\n")
	}
	b.WriteString(prelude)
	b.WriteString(body.String())
	b.WriteString("(check-sat)\n")
	if wantModel {
		b.WriteString("(get-model)\n")
	}
	return b.String(), quant
}

type solverCfg struct {
	name string
	argv []string
}

func solversFor(quant bool, tier string) []solverCfg {
	if quant {
		return []solverCfg{
			{"z3-new/ematch", []string{"z3-new", "smt.mbqi=false", "auto_config=false", "-smt2"}},
			{"z3/ematch", []string{"z3", "smt.mbqi=false", "auto_config=false", "-smt2"}},
		}
	}
	return []solverCfg{
		{"z3-new/qf", []string{"z3-new", "-smt2"}},
		{"z3/qf", []string{"z3", "-smt2"}},
		{"cvc5/qf", []string{"cvc5", "--lang=smt2", "--strings-exp"}},
	}
}

// at most one solver process per core: the time limits are wall-clock, so an oversubscribed machine turns fast
// proofs into time-outs (the clock of an attempt starts when it gets its slot)
var procSem = make(chan struct{}, maxInt(4, runtime.NumCPU()))

func maxInt(a, b int) int {
	if a > b {
		return a
	}
	return b
}

func runSolver(cfg solverCfg, file string, timeout time.Duration) (status string, out string, ms int64) {
	procSem <- struct{}{}
	defer func() { <-procSem }()
	ctx, cancel := context.WithTimeout(context.Background(), timeout)
	defer cancel()
	argv := append([]string{}, cfg.argv[1:]...)
	if strings.HasPrefix(cfg.argv[0], "z3") {
		argv = append(argv, fmt.Sprintf("-T:%d", int(timeout.Seconds())))
	} else {
		argv = append(argv, fmt.Sprintf("--tlimit=%d", timeout.Milliseconds()))
	}
	argv = append(argv, file)
	cmd := exec.CommandContext(ctx, cfg.argv[0], argv...)
	var buf bytes.Buffer
	cmd.Stdout = &buf
	cmd.Stderr = &buf
	t0 := time.Now()
	_ = cmd.Run()
	ms = time.Since(t0).Milliseconds()
	out = buf.String()
	first := ""
	for _, l := range strings.Split(out, "\n") {
		l = strings.TrimSpace(l)
		if l == "unsat" || l == "sat" || l == "unknown" || l == "timeout" {
			first = l
			break
		}
	}
	switch first {
	case "unsat":
		return "unsat", out, ms
	case "sat":
		return "sat", out, ms
	case "unknown", "timeout":
		return "unknown", out, ms
	}
	if ctx.Err() != nil || strings.Contains(out, "interrupted by timeout") || strings.Contains(out, "out of memory") || strings.Contains(out, "Killed") {
		return "timeout", out, ms
	}
	if !strings.Contains(out, "(error") {
		// no verdict and no error message (a solver that was killed or aborted on resource limits): inconclusive
		return "unknown", out, ms
	}
	return "error", out, ms
}

// dischargeInduct decides a lemma by structural induction on the ghost datatype: cvc5 --quant-ind on the quantified script.
func (pr *Prover) dischargeInduct(vc *VC, o *Oblig, prelude string, axioms []string) *Verdict {
	v := &Verdict{Oblig: o}
	if len(vc.errs) > 0 {
		v.Status = "error"
		v.Output = "contract error: " + strings.Join(vc.errs, "; ")
		return v
	}
	script, _ := vc.script(o, prelude, axioms, false)
	v.SMTBytes = len(script)
	file := filepath.Join(pr.workdir, sanitize(o.Name)+".induct.smt2")
	if err := os.WriteFile(file, []byte("(set-logic ALL)\n"+script), 0o644); err != nil {
		v.Status = "error"
		v.Output = err.Error()
		return v
	}
	v.Script = file
	cfg := solverCfg{"cvc5/quant-ind", []string{"cvc5", "--lang=smt2", "--strings-exp", "--quant-ind"}}
	st, out, ms := runSolver(cfg, file, pr.timeout)
	v.Ms = ms
	v.Tried = append(v.Tried, cfg.name+":"+st)
	switch st {
	case "unsat":
		v.Status = "proved"
		v.Backend = cfg.name
		if !pr.keep {
			os.Remove(file)
		}
	case "error":
		v.Status = "error"
		v.Output = cfg.name + ": " + out
	default:
		v.Status = "failed-unknown"
		v.Output = out
	}
	return v
}

// mentionsStringPred: the goal applies an opaque predicate whose definition is a string fact (isIdName, ...).
var strPredCache sync.Map // axiom text -> function name or ""

func mentionsStringPred(goal string, axioms []string) bool {
	for _, a := range axioms {
		v, ok := strPredCache.Load(a)
		if !ok {
			name := ""
			if d := asUnaryDef(a); d != nil && strings.Contains(d.body.String(), "str.") {
				name = d.fn
			}
			strPredCache.Store(a, name)
			v = name
		}
		if n := v.(string); n != "" && strings.Contains(goal, "("+n+" ") {
			return true
		}
	}
	return false
}

type Prover struct {
	workdir string
	timeout time.Duration
	tier    string
	seed    int
	keep    bool
}

type attempt struct {
	cfg      solverCfg
	file     string
	stripped bool
	timeout  time.Duration
}

type attemptResult struct {
	a   attempt
	st  string
	out string
	ms  int64
}

// runGroup runs attempts concurrently and returns as soon as one says unsat (the others are left to their time limit).
func runGroup(as []attempt) []attemptResult {
	ch := make(chan attemptResult, len(as))
	for _, a := range as {
		go func(a attempt) {
			st, out, ms := runSolver(a.cfg, a.file, a.timeout)
			ch <- attemptResult{a, st, out, ms}
		}(a)
	}
	var res []attemptResult
	for range as {
		r := <-ch
		res = append(res, r)
		if r.st == "unsat" {
			break
		}
	}
	return res
}

// discharge decides one obligation.  Stage 1: the fast configuration with a short limit (decides almost everything).
// Stage 2 (only if stage 1 did not prove it): a group run concurrently - the other z3 version, two more E-matching
// runs with different solver seeds (proofs by E-matching can be order-sensitive), and, when the goal is
// quantifier-free, cvc5 / z3 on the quantifier-free weakening of the assumptions.  Any "unsat" proves the obligation;
// "sat" on the unweakened quantifier-free script is a counterexample of the VC.
func (pr *Prover) discharge(vc *VC, o *Oblig, prelude string, axioms []string) *Verdict {
	v := &Verdict{Oblig: o}
	if len(vc.errs) > 0 {
		v.Status = "error"
		v.Output = "function outside the supported subset / contract error: " + strings.Join(vc.errs, "; ")
		return v
	}
	script, quant := vc.script(o, prelude, axioms, false)
	v.SMTBytes = len(script)
	if len(script) > 4<<20 {
		v.Status = "error"
		v.Output = fmt.Sprintf("VC too large (%d bytes)", len(script))
		return v
	}
	file := filepath.Join(pr.workdir, sanitize(o.Name)+".smt2")
	if err := os.WriteFile(file, []byte(script), 0o644); err != nil {
		v.Status = "error"
		v.Output = err.Error()
		return v
	}
	v.Script = file
	cleanup := func(extra ...string) {
		for _, f := range extra {
			os.Remove(f)
		}
		if !pr.keep {
			os.Remove(file)
		}
	}
	cfgs := solversFor(quant, pr.tier)
	record := func(rs []attemptResult) (proved bool, sat *attemptResult, errRes *attemptResult) {
		for i := range rs {
			r := rs[i]
			v.Ms += r.ms
			name := r.a.cfg.name
			if r.a.stripped {
				name += "/stripped"
			}
			v.Tried = append(v.Tried, name+":"+r.st)
			switch r.st {
			case "unsat":
				v.Status = "proved"
				v.Backend = name
				proved = true
			case "sat":
				if !r.a.stripped && !quant {
					sat = &rs[i]
				}
			case "error":
				if !r.a.stripped {
					errRes = &rs[i] // (an error of an auxiliary attempt on the weakened script is only that attempt's failure)
				}
			default:
				v.Output = r.out
			}
		}
		return
	}
	// stage 1
	t1 := pr.timeout
	if o.Kind == "canary" && t1 > 2*time.Second {
		t1 = 2 * time.Second // a vacuous context is refuted at once; anything slower is "not refuted"
	} else if t1 > 8*time.Second {
		t1 = 8 * time.Second // (the slowest obligation takes 2.6 s on an idle machine; the limit leaves room for a loaded one)
	}
	stage1 := []attempt{{cfg: cfgs[0], file: file, timeout: t1}}
	var s1extra []string
	if quant && o.Kind != "canary" && !containsQuant(o.Goal) && (strings.Contains(o.Goal, "str.") || mentionsStringPred(o.Goal, axioms)) {
		// string obligations: cvc5 on the quantifier-free weakening decides them at once; run it alongside
		s2, _ := vc.scriptMode(o, prelude, axioms, false, true)
		f2 := file + ".qf1.smt2"
		if err := os.WriteFile(f2, []byte(s2), 0o644); err == nil {
			s1extra = append(s1extra, f2)
			stage1 = append(stage1, attempt{cfg: solversFor(false, pr.tier)[2], file: f2, stripped: true, timeout: t1})
		}
		// ... and on the relevance slice of it
		s3, _ := vc.scriptMode2(o, prelude, axioms, false, true, true)
		f3 := file + ".sl1.smt2"
		if err := os.WriteFile(f3, []byte(s3), 0o644); err == nil {
			s1extra = append(s1extra, f3)
			c3 := solversFor(false, pr.tier)[2]
			c3.name = "cvc5/qf/sliced"
			stage1 = append(stage1, attempt{cfg: c3, file: f3, stripped: true, timeout: t1})
		}
	}
	proved, sat, errRes := record(runGroup(stage1))
	if !pr.keep {
		defer func() {
			for _, f := range s1extra {
				os.Remove(f)
			}
		}()
	}
	if proved {
		if pr.tier == "thorough" && o.Kind != "canary" {
			// cross-check with the other z3 version: "sat" from it contradicts the proof (engine error, not a verdict)
			ct := pr.timeout
			if ct > 10*time.Second {
				ct = 10 * time.Second // the cross-check only looks for a contradicting "sat"; it need not finish
			}
			st, out, ms := runSolver(cfgs[1], file, ct)
			v.Ms += ms
			v.Tried = append(v.Tried, "cross:"+cfgs[1].name+":"+st)
			if st == "sat" && !quant {
				v.Status = "error"
				v.Output = "solver disagreement: " + cfgs[0].name + " says unsat, " + cfgs[1].name + " says sat\n" + out
				return v
			}
		}
		cleanup()
		return v
	}
	if errRes != nil {
		v.Status = "error"
		v.Output = errRes.a.cfg.name + ": " + errRes.out
		return v
	}
	if o.Kind == "canary" {
		v.Status = "failed-unknown"
		cleanup()
		return v
	}
	if sat == nil {
		// stage 2
		var group []attempt
		var extra []string
		if quant {
			group = append(group, attempt{cfg: cfgs[1], file: file, timeout: pr.timeout})
			group = append(group, attempt{cfg: cfgs[0], file: file, timeout: pr.timeout})
			for _, seed := range []int{1, 2} {
				c := cfgs[0]
				c.name = fmt.Sprintf("%s/seed%d", c.name, seed)
				c.argv = append(append([]string{}, c.argv...), fmt.Sprintf("smt.random_seed=%d", seed), fmt.Sprintf("sat.random_seed=%d", seed))
				group = append(group, attempt{cfg: c, file: file, timeout: pr.timeout})
			}
			if !containsQuant(o.Goal) {
				s2, _ := vc.scriptMode(o, prelude, axioms, false, true)
				f2 := file + ".qf.smt2"
				if err := os.WriteFile(f2, []byte(s2), 0o644); err == nil {
					extra = append(extra, f2)
					qf := solversFor(false, pr.tier)
					group = append(group, attempt{cfg: qf[2], file: f2, stripped: true, timeout: pr.timeout}, attempt{cfg: qf[0], file: f2, stripped: true, timeout: pr.timeout})
				}
			}
		} else {
			group = append(group, attempt{cfg: cfgs[0], file: file, timeout: pr.timeout}, attempt{cfg: cfgs[1], file: file, timeout: pr.timeout}, attempt{cfg: cfgs[2], file: file, timeout: pr.timeout})
		}
		var p2 bool
		p2, sat, _ = record(runGroup(group))
		if p2 {
			cleanup(extra...)
			return v
		}
		if !pr.keep {
			for _, f := range extra {
				os.Remove(f)
			}
		}
	}
	if sat != nil {
		// definite counterexample of the VC: fetch a model
		v.Backend = sat.a.cfg.name
		v.Output = sat.out
		ms2, _ := vc.script(o, prelude, axioms, true)
		mf := file + ".model.smt2"
		os.WriteFile(mf, []byte(ms2), 0o644)
		_, mout, _ := runSolver(sat.a.cfg, mf, pr.timeout)
		v.Model = mout
		os.Remove(mf)
		v.Status = "failed-sat"
		return v
	}
	// stage 3: a conjunctive goal is proved conjunct by conjunct (sound: same assumptions, each conjunct separately)
	if parts := splitConj(o.Goal); len(parts) > 1 && o.Kind != "canary" && !strings.HasSuffix(o.Name, "~part") {
		all := true
		for k, g := range parts {
			o2 := *o
			o2.Name = fmt.Sprintf("%s.%d~part", o.Name, k)
			o2.Goal = g
			v2 := pr.discharge(vc, &o2, prelude, axioms)
			v.Ms += v2.Ms
			v.Tried = append(v.Tried, fmt.Sprintf("conjunct%d:%s", k, v2.Status))
			if v2.Status != "proved" {
				all = false
				break
			}
		}
		if all {
			v.Status = "proved"
			v.Backend = "conjunct-split"
			cleanup()
			return v
		}
	}
	v.Status = "failed-unknown"
	return v
}

// dischargeAll runs the obligations on all cores.
func (pr *Prover) dischargeAll(jobs []func() *Verdict) []*Verdict {
	out := make([]*Verdict, len(jobs))
	var wg sync.WaitGroup
	sem := make(chan struct{}, 16)
	for i, j := range jobs {
		wg.Add(1)
		sem <- struct{}{}
		go func(i int, j func() *Verdict) {
			defer wg.Done()
			out[i] = j()
			<-sem
		}(i, j)
	}
	wg.Wait()
	return out
}

// scopedVisible: a scoped fact is visible to an obligation iff the obligation serves one of the fact's properties and, when
// the fact names groups (grp=<name>: a finer partition inside one property), belongs to one of them.
func scopedVisible(o *Oblig, tags []string) bool {
	shared, hasGrp, grpShared := false, false, false
	for _, t := range tags {
		if strings.HasPrefix(t, "grp=") {
			hasGrp = true
			for _, q := range o.Props {
				if q == t {
					grpShared = true
				}
			}
			continue
		}
		if !pseudoTag[t] && hasProp(o.Props, t) {
			shared = true
		}
	}
	return shared && (!hasGrp || grpShared)
}
