package main

// Syntactic purity obligations for C13 (DESIGN.md section 4, C13): decided on
// the SSA of every function reachable from the exported API.

import (
	"fmt"
	"go/types"
	"sort"
	"strings"

	"golang.org/x/tools/go/ssa"
)

var externWhitelist = map[string]string{
	"errors.New":                       "deterministic, no I/O, safe for concurrent use",
	"fmt.Sprintf":                      "deterministic for the argument kinds used (string, byte, int), no I/O, safe for concurrent use",
	"strings.HasPrefix":                "pure",
	"strings.HasSuffix":                "pure",
	"strings.EqualFold":                "pure",
	"strings.ToLower":                  "pure",
	"regexp.Compile":                   "pure: returns a fresh *Regexp",
	"(*regexp.Regexp).FindStringIndex": "deterministic; *Regexp is safe for concurrent use and here it is call-local",
	"sort.Slice":                       "deterministic for a given slice and comparator; writes only the slice",
}

type purityFinding struct {
	Func, Kind, Detail, Where string
}

// purityScan returns one verdict per (function, kind) pair.
func (p *Program) purityScan() []*VerdictJSON {
	var out []*VerdictJSON
	reach := p.apiReachable()
	var fns []*ssa.Function
	for fn := range reach {
		fns = append(fns, fn)
	}
	sort.Slice(fns, func(i, j int) bool { return p.fnName(fns[i]) < p.fnName(fns[j]) })
	add := func(fn *ssa.Function, kind string, bad []string, where string) {
		v := &VerdictJSON{Name: p.fnName(fn) + "/purity:" + kind, Func: p.fnName(fn), Kind: "purity", Props: []string{"C13"}, Backend: "ssa-scan",
			Clause: purityClause[kind], Where: where}
		if len(bad) == 0 {
			v.Status = "proved"
		} else {
			v.Status = "failed-scan"
			v.Output = strings.Join(bad, "; ")
		}
		out = append(out, v)
	}
	for _, fn := range fns {
		var globals, conc, externs, nondet, io []string
		where := ""
		for _, b := range fn.Blocks {
			for _, ins := range b.Instrs {
				pos := p.pos(ins.Pos())
				for _, op := range ins.Operands(nil) {
					if g, ok := (*op).(*ssa.Global); ok {
						globals = append(globals, fmt.Sprintf("%s uses package-level variable %s", pos, g.Name()))
						where = pos
					}
				}
				switch x := ins.(type) {
				case *ssa.Go:
					conc = append(conc, pos+" go statement")
					where = pos
				case *ssa.Select, *ssa.Send, *ssa.MakeChan:
					conc = append(conc, pos+" channel operation")
					where = pos
				case *ssa.UnOp:
					if x.Op.String() == "<-" {
						conc = append(conc, pos+" channel receive")
						where = pos
					}
				case *ssa.Range:
					if _, ok := x.X.Type().Underlying().(*types.Map); ok {
						nondet = append(nondet, pos+" range over a map (iteration order is not deterministic)")
						where = pos
					}
				case *ssa.Convert:
					if bt, ok := x.Type().Underlying().(*types.Basic); ok && bt.Kind() == types.UnsafePointer {
						nondet = append(nondet, pos+" unsafe.Pointer conversion")
						where = pos
					}
				case ssa.CallInstruction:
					cc := x.Common()
					if cc.IsInvoke() {
						externs = append(externs, pos+" dynamic interface call "+cc.Method.Name())
						where = pos
						continue
					}
					switch c := cc.Value.(type) {
					case *ssa.Function:
						if p.inVerified(c) {
							continue
						}
						name := c.String()
						if _, ok := externWhitelist[name]; !ok && !pureExternal(c) {
							pk := ""
							if c.Pkg != nil {
								pk = c.Pkg.Pkg.Path()
							}
							switch pk {
							case "os", "log", "time", "math/rand", "io", "bufio", "net", "syscall":
								io = append(io, pos+" calls "+name)
							default:
								if strings.HasPrefix(name, "fmt.Print") || strings.HasPrefix(name, "fmt.Fprint") {
									io = append(io, pos+" calls "+name)
								} else {
									externs = append(externs, pos+" calls "+name+" which is not on the whitelist of pure external functions")
								}
							}
							where = pos
						}
					case *ssa.Builtin:
						if c.Name() == "print" || c.Name() == "println" {
							io = append(io, pos+" calls builtin "+c.Name())
							where = pos
						}
					case *ssa.MakeClosure:
					default:
						if _, ok := cc.Value.(*ssa.Function); !ok {
							externs = append(externs, pos+" dynamic call")
							where = pos
						}
					}
				}
			}
		}
		add(fn, "no-package-state", globals, where)
		add(fn, "no-concurrency-constructs", conc, where)
		add(fn, "no-nondeterminism", nondet, where)
		add(fn, "no-io", io, where)
		add(fn, "external-callees-whitelisted", externs, where)
	}
	// package-level variables of the verified packages
	for path := range p.verified {
		sp := p.spkgs[path]
		if sp == nil {
			continue
		}
		var bad []string
		for name, m := range sp.Members {
			if g, ok := m.(*ssa.Global); ok && name != "init$guard" {
				bad = append(bad, "package-level variable "+g.Name())
			}
		}
		sort.Strings(bad)
		v := &VerdictJSON{Name: sp.Pkg.Name() + "/purity:no-package-variables", Func: sp.Pkg.Name(), Kind: "purity", Props: []string{"C13"}, Backend: "ssa-scan",
			Clause: "the package declares no package-level variables"}
		if len(bad) == 0 {
			v.Status = "proved"
		} else {
			v.Status = "failed-scan"
			v.Output = strings.Join(bad, "; ")
		}
		out = append(out, v)
	}
	return out
}

var purityClause = map[string]string{
	"no-package-state":             "the function neither reads nor writes package-level variables",
	"no-concurrency-constructs":    "no go statement, channel operation or select",
	"no-nondeterminism":            "no map range, no unsafe",
	"no-io":                        "no os / log / time / rand / fmt.Print* / print call",
	"external-callees-whitelisted": "every external callee is on the whitelist of deterministic, effect-free, concurrency-safe functions",
}
