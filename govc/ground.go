package main

// Ground evaluation: closed facts about the literal tables (the postconditions
// of the four table functions, whose bodies must be single composite literals)
// decided by evaluation on the current tree.  Back end "ground-eval".

import (
	"encoding/json"
	"fmt"
	"go/ast"
	"go/constant"
	"os"
	"path/filepath"
	"regexp"
	"sort"
	"strconv"
	"strings"

	"golang.org/x/tools/go/packages"
)

type Tables struct {
	Active, Deprecated, Exceptions []string
	Ranges                         [][][]string
	ShapeErrors                    []string
}

type GroundResult struct {
	Name      string        `json:"name"`
	Statement string        `json:"statement"`
	Rows      int           `json:"rows"`
	Holds     bool          `json:"holds"`
	Witnesses []interface{} `json:"witnesses"`
}

func (p *Program) tablePkg() *packages.Package {
	for _, pk := range p.pkgs {
		if pk.PkgPath == pkgTables {
			return pk
		}
	}
	return nil
}

// literalOf evaluates the body of a table function: it must be "return <composite literal of string constants>".
func literalOf(pk *packages.Package, name string) (interface{}, error) {
	for _, f := range pk.Syntax {
		for _, d := range f.Decls {
			fd, ok := d.(*ast.FuncDecl)
			if !ok || fd.Name.Name != name || fd.Recv != nil {
				continue
			}
			if fd.Body == nil || len(fd.Body.List) != 1 {
				return nil, fmt.Errorf("%s: body is not a single statement", name)
			}
			rs, ok := fd.Body.List[0].(*ast.ReturnStmt)
			if !ok || len(rs.Results) != 1 {
				return nil, fmt.Errorf("%s: body is not a single return", name)
			}
			return evalLit(pk, rs.Results[0], name)
		}
	}
	return nil, fmt.Errorf("function %s not found", name)
}

func evalLit(pk *packages.Package, e ast.Expr, name string) (interface{}, error) {
	switch x := e.(type) {
	case *ast.CompositeLit:
		var out []interface{}
		for _, el := range x.Elts {
			if _, ok := el.(*ast.KeyValueExpr); ok {
				return nil, fmt.Errorf("%s: keyed element in table literal", name)
			}
			v, err := evalLit(pk, el, name)
			if err != nil {
				return nil, err
			}
			out = append(out, v)
		}
		return out, nil
	default:
		tv, ok := pk.TypesInfo.Types[e]
		if !ok || tv.Value == nil || tv.Value.Kind() != constant.String {
			return nil, fmt.Errorf("%s: table element is not a string constant", name)
		}
		return constant.StringVal(tv.Value), nil
	}
}

func toStrings(v interface{}) []string {
	var out []string
	for _, x := range v.([]interface{}) {
		out = append(out, x.(string))
	}
	return out
}

func (p *Program) loadTables() *Tables {
	t := &Tables{}
	pk := p.tablePkg()
	if pk == nil {
		t.ShapeErrors = append(t.ShapeErrors, "package spdxlicenses not found")
		return t
	}
	get := func(name string) []string {
		v, err := literalOf(pk, name)
		if err != nil {
			t.ShapeErrors = append(t.ShapeErrors, err.Error())
			return nil
		}
		defer func() {
			if r := recover(); r != nil {
				t.ShapeErrors = append(t.ShapeErrors, name+": literal is not a flat list of strings")
			}
		}()
		return toStrings(v)
	}
	t.Active = get("GetLicenses")
	t.Deprecated = get("GetDeprecated")
	t.Exceptions = get("GetExceptions")
	v, err := literalOf(pk, "LicenseRanges")
	if err != nil {
		t.ShapeErrors = append(t.ShapeErrors, err.Error())
	} else {
		func() {
			defer func() {
				if r := recover(); r != nil {
					t.ShapeErrors = append(t.ShapeErrors, "LicenseRanges: literal is not [][][]string")
				}
			}()
			for _, fam := range v.([]interface{}) {
				var f [][]string
				for _, grp := range fam.([]interface{}) {
					f = append(f, toStrings(grp))
				}
				t.Ranges = append(t.Ranges, f)
			}
		}()
	}
	return t
}

var verRe = regexp.MustCompile(`^(.*?-)(\d+(?:\.\d+)*[a-z]?)(-.*)?$`)

type idShape struct {
	prefix, version, suffix string // suffix normalised: -only / -or-later stripped
	ok                      bool
}

func shapeOf(id string) idShape {
	m := verRe.FindStringSubmatch(id)
	if m == nil {
		return idShape{}
	}
	suf := m[3]
	suf = strings.TrimSuffix(suf, "-only")
	suf = strings.TrimSuffix(suf, "-or-later")
	return idShape{prefix: m[1], version: m[2], suffix: suf, ok: true}
}

// cmpVersion: natural (numeric, component-wise) order, a trailing letter breaks ties.
func cmpVersion(a, b string) int {
	split := func(v string) ([]int, string) {
		letter := ""
		if n := len(v); n > 0 && v[n-1] >= 'a' && v[n-1] <= 'z' {
			letter = v[n-1:]
			v = v[:n-1]
		}
		var out []int
		for _, p := range strings.Split(v, ".") {
			n, _ := strconv.Atoi(p)
			out = append(out, n)
		}
		return out, letter
	}
	// decimal reading for the second component when written with leading digits of different width (1.02 vs 1.0, 3.01 vs 3.0)
	xa, la := split(a)
	xb, lb := split(b)
	for i := 0; i < len(xa) || i < len(xb); i++ {
		va, vb := 0, 0
		if i < len(xa) {
			va = xa[i]
		}
		if i < len(xb) {
			vb = xb[i]
		}
		if va != vb {
			if va < vb {
				return -1
			}
			return 1
		}
	}
	return strings.Compare(la, lb)
}

func inList(l []string, s string) bool {
	for _, x := range l {
		if x == s {
			return true
		}
	}
	return false
}

func foldIn(l []string, s string) bool {
	for _, x := range l {
		if strings.EqualFold(x, s) {
			return true
		}
	}
	return false
}

func (t *Tables) pos(id string) (int, int, bool) {
	s := strings.TrimSuffix(id, "-or-later")
	for i, fam := range t.Ranges {
		for j, grp := range fam {
			for _, l := range grp {
				if l == s {
					return i, j, true
				}
			}
		}
	}
	return 0, 0, false
}

type jsonLic struct {
	ID         string `json:"licenseId"`
	Deprecated bool   `json:"isDeprecatedLicenseId"`
}
type jsonExc struct {
	ID         string `json:"licenseExceptionId"`
	Deprecated bool   `json:"isDeprecatedLicenseId"`
}

func (p *Program) ground(check string) *GroundResult {
	t := p.loadTables()
	res := &GroundResult{Name: check, Holds: true}
	fail := func(w interface{}) {
		res.Holds = false
		res.Witnesses = append(res.Witnesses, w)
	}
	all := append(append(append([]string{}, t.Active...), t.Deprecated...), t.Exceptions...)
	switch check {
	case "tableShape":
		res.Statement = "the body of GetLicenses, GetDeprecated, GetExceptions and LicenseRanges is a single return of a composite literal of string constants"
		res.Rows = 4
		for _, e := range t.ShapeErrors {
			fail(e)
		}
	case "foldUnique":
		res.Statement = "no two ids of the active, deprecated and exception lists are equal up to letter case"
		res.Rows = len(all)
		seen := map[string]string{}
		for _, id := range all {
			k := strings.ToLower(id)
			if o, ok := seen[k]; ok {
				fail(fmt.Sprintf("%s / %s", o, id))
			}
			seen[k] = id
		}
	case "listsDisjoint":
		res.Statement = "the active, deprecated and exception lists are pairwise disjoint and duplicate-free"
		res.Rows = len(all)
		seen := map[string]bool{}
		for _, id := range all {
			if seen[id] {
				fail(id)
			}
			seen[id] = true
		}
	case "idsAreIDCH":
		res.Statement = "every listed id consists of the characters [A-Za-z0-9.-] (deprecated ids may end in one '+')"
		res.Rows = len(all)
		re := regexp.MustCompile(`^[A-Za-z0-9.-]+$`)
		for _, id := range all {
			x := id
			if inList(t.Deprecated, id) {
				x = strings.TrimSuffix(id, "+")
			}
			if !re.MatchString(x) {
				fail(id)
			}
		}
	case "noOperatorPrefix":
		res.Statement = "no case variant of a listed id begins with an operator keyword (WITH, AND, OR), so the tokeniser's operator-first rule never splits an id"
		res.Rows = len(all)
		for _, id := range all {
			l := strings.ToLower(id)
			for _, op := range []string{"with", "and", "or"} {
				if strings.HasPrefix(l, op) {
					fail(id)
				}
			}
		}
	case "noRefPrefix":
		res.Statement = "no listed id starts with LicenseRef- or DocumentRef- (the canonical string of a license term can never be mistaken for a reference)"
		res.Rows = len(all)
		for _, id := range all {
			if strings.HasPrefix(id, "LicenseRef-") || strings.HasPrefix(id, "DocumentRef-") {
				fail(id)
			}
		}
	case "noEmptyId":
		res.Statement = "no listed id is the empty string"
		res.Rows = len(all)
		for _, id := range all {
			if id == "" {
				fail("empty id")
			}
		}
	case "deprecatedSuffixFree":
		res.Statement = "no case variant of an id that is only on the deprecated list has the form '<active or exception id>-only' or '<active or exception id>-or-later' (so the case-sensitive suffix rules of the normalisation never apply to a re-cased deprecated id; hypothesis of lemma foldClassDeprecated)"
		for _, id := range t.Deprecated {
			if foldIn(t.Active, id) || foldIn(t.Exceptions, id) {
				continue
			}
			res.Rows++
			l := strings.ToLower(id)
			for _, suf := range []string{"-only", "-or-later"} {
				if strings.HasSuffix(l, suf) {
					base := id[:len(id)-len(suf)]
					if foldIn(t.Active, base) || foldIn(t.Exceptions, base) {
						fail(id)
					}
				}
			}
		}
	case "noSuffixCollision":
		res.Statement = "no listed id is itself '-only' or '-or-later' (an empty base id never reaches the lookup as a listed id)"
		res.Rows = len(all)
		for _, id := range all {
			if strings.EqualFold(id, "-only") || strings.EqualFold(id, "-or-later") {
				fail(id)
			}
		}
	case "jsonAgreement":
		res.Statement = "GetLicenses / GetDeprecated / GetExceptions equal, in order, the ids derived from cmd/licenses.json and cmd/exceptions.json (non-deprecated licenses, deprecated licenses, non-deprecated exceptions)"
		var ld struct {
			Licenses []jsonLic `json:"licenses"`
		}
		var ed struct {
			Exceptions []jsonExc `json:"exceptions"`
		}
		b, err := os.ReadFile(filepath.Join(p.dir, "cmd", "licenses.json"))
		if err == nil {
			err = json.Unmarshal(b, &ld)
		}
		if err != nil {
			fail("cmd/licenses.json: " + err.Error())
			break
		}
		b, err = os.ReadFile(filepath.Join(p.dir, "cmd", "exceptions.json"))
		if err == nil {
			err = json.Unmarshal(b, &ed)
		}
		if err != nil {
			fail("cmd/exceptions.json: " + err.Error())
			break
		}
		var wa, wd, we []string
		for _, l := range ld.Licenses {
			if l.Deprecated {
				wd = append(wd, l.ID)
			} else {
				wa = append(wa, l.ID)
			}
		}
		for _, e := range ed.Exceptions {
			if !e.Deprecated {
				we = append(we, e.ID)
			}
		}
		res.Rows = len(wa) + len(wd) + len(we)
		cmp := func(name string, want, got []string) {
			for i := 0; i < len(want) || i < len(got); i++ {
				w, g := "<none>", "<none>"
				if i < len(want) {
					w = want[i]
				}
				if i < len(got) {
					g = got[i]
				}
				if w != g {
					fail(fmt.Sprintf("%s[%d]: JSON says %s, Go table says %s", name, i, w, g))
					return
				}
			}
		}
		cmp("GetLicenses", wa, t.Active)
		cmp("GetDeprecated", wd, t.Deprecated)
		cmp("GetExceptions", we, t.Exceptions)
	case "rangesEntriesListed":
		res.Statement = "every entry of the version-family table is on the active or the deprecated list"
		for _, fam := range t.Ranges {
			for _, grp := range fam {
				for _, id := range grp {
					res.Rows++
					if !inList(t.Active, id) && !inList(t.Deprecated, id) {
						fail(id)
					}
				}
			}
		}
	case "rangesUniquePosition":
		res.Statement = "no id occurs at two positions of the version-family table (the lookup returns the first position, so a second occurrence is unreachable)"
		seen := map[string]string{}
		for i, fam := range t.Ranges {
			for j, grp := range fam {
				for k, id := range grp {
					res.Rows++
					at := fmt.Sprintf("[%d][%d][%d]", i, j, k)
					if o, ok := seen[id]; ok {
						fail(fmt.Sprintf("%s at %s and %s", id, o, at))
					} else {
						seen[id] = at
					}
				}
			}
		}
	case "rangesOneFamilyShape":
		res.Statement = "all entries of a family share the same prefix and the same suffix around their version number"
		for i, fam := range t.Ranges {
			var first *idShape
			for _, grp := range fam {
				for _, id := range grp {
					res.Rows++
					s := shapeOf(id)
					if !s.ok {
						fail(fmt.Sprintf("family %d: %s has no version number", i, id))
						continue
					}
					if first == nil {
						f := s
						first = &f
					} else if s.prefix != first.prefix || s.suffix != first.suffix {
						fail(fmt.Sprintf("family %d: %s does not have the shape %s<version>%s", i, id, first.prefix, first.suffix))
					}
				}
			}
		}
	case "rangesOneVersionPerStep":
		res.Statement = "all entries of one version group carry the same version number"
		for i, fam := range t.Ranges {
			for j, grp := range fam {
				ver := groupVersion(grp)
				for _, id := range grp {
					res.Rows++
					s := shapeOf(id)
					if s.ok && ver != "" && s.version != ver {
						fail(fmt.Sprintf("%s in group [%d][%d] of version %s", id, i, j, ver))
					}
				}
			}
		}
	case "rangesAscending":
		res.Statement = "within a family the version groups ascend strictly in the natural (numeric, component-wise) order of their version numbers"
		for i, fam := range t.Ranges {
			prev := ""
			for j, grp := range fam {
				res.Rows++
				if len(grp) == 0 {
					fail(fmt.Sprintf("empty group [%d][%d]", i, j))
					continue
				}
				ver := groupVersion(grp)
				if ver == "" {
					continue
				}
				if prev != "" && cmpVersion(prev, ver) >= 0 {
					fail(fmt.Sprintf("family %d: version %s at step %d does not come after %s", i, ver, j, prev))
				}
				prev = ver
			}
		}
	case "rangesFamilyComplete":
		res.Statement = "a family that is covered at all covers every listed id of the same shape (prefix<version>suffix, with or without -only / -or-later)"
		for i, fam := range t.Ranges {
			if len(fam) == 0 || len(fam[0]) == 0 {
				continue
			}
			f := shapeOf(fam[0][0])
			if !f.ok {
				continue
			}
			for _, id := range append(append([]string{}, t.Active...), t.Deprecated...) {
				s := shapeOf(strings.TrimSuffix(id, "+"))
				if !s.ok || s.prefix != f.prefix || s.suffix != f.suffix {
					continue
				}
				res.Rows++
				if strings.HasSuffix(id, "+") {
					continue // deprecated 'X+' spellings are never a lexeme
				}
				if _, _, ok := t.pos(id); !ok {
					fail(fmt.Sprintf("%s is listed but missing from family %d (%s<version>%s)", id, i, f.prefix, f.suffix))
				}
			}
		}
	case "onlyPairsShareGroup":
		res.Statement = "for every listed id X for which X-only is also a valid spelling, X and the id that X-only denotes are identical or occupy the same slot (family, version) of the version-family table, the hypothesis of lemma sameSlotInterchangeable"
		for _, id := range append(append([]string{}, t.Active...), t.Deprecated...) {
			if strings.HasSuffix(id, "+") {
				continue
			}
			only := id + "-only"
			// what X-only denotes: the listed id X-only if there is one, else X itself
			den := id
			if foldIn(t.Active, only) {
				den = only
			} else if !foldIn(t.Active, id) && !foldIn(t.Exceptions, id) {
				// X only on the deprecated list and X-only not active: X-only is not a valid spelling
				continue
			}
			res.Rows++
			if den == id {
				continue
			}
			fa, va, oka := t.pos(id)
			fb, vb, okb := t.pos(den)
			if !oka || !okb || fa != fb || va != vb {
				fail(fmt.Sprintf("%s %v / %s %v", id, posStr(fa, va, oka), den, posStr(fb, vb, okb)))
			}
		}
	case "laterPairsShareGroup":
		res.Statement = "for every listed id X, 'X+' and 'X-or-later' denote the same term or terms in the same slot of the version-family table: when X-or-later is listed and X itself is an active id (so that 'X+' keeps the id X), X must be in the table (the lookup strips -or-later, so both ids are then looked up as X); in every other case the normalisation yields the same token value for both spellings"
		for _, id := range append(append([]string{}, t.Active...), t.Deprecated...) {
			if strings.HasSuffix(id, "+") || strings.HasSuffix(id, "-or-later") || strings.HasSuffix(id, "-only") {
				continue
			}
			res.Rows++
			later := id + "-or-later"
			if !foldIn(t.Active, later) && !foldIn(t.Exceptions, later) {
				continue // X-or-later is not listed: it is rewritten to X with the plus flag, exactly what 'X+' yields
			}
			if !foldIn(t.Active, id) && !foldIn(t.Exceptions, id) {
				continue // X is not an active id: 'X+' is resolved through the listed X-or-later, the same token
			}
			if _, _, ok := t.pos(id); !ok {
				fail(fmt.Sprintf("%s and %s are both listed but %s is not in the version-family table", id, later, id))
			}
		}
	default:
		res.Holds = false
		res.Witnesses = append(res.Witnesses, "unknown ground check "+check)
	}
	sort.Slice(res.Witnesses, func(i, j int) bool { return fmt.Sprint(res.Witnesses[i]) < fmt.Sprint(res.Witnesses[j]) })
	return res
}

func posStr(f, v int, ok bool) string {
	if !ok {
		return "not in the table"
	}
	return fmt.Sprintf("at family %d step %d", f, v)
}

// groupVersion: the version a group stands for: that of its first entry that is not an '-or-later' spelling.
func groupVersion(grp []string) string {
	for _, id := range grp {
		if strings.HasSuffix(id, "-or-later") {
			continue
		}
		if s := shapeOf(id); s.ok {
			return s.version
		}
	}
	for _, id := range grp {
		if s := shapeOf(id); s.ok {
			return s.version
		}
	}
	return ""
}
