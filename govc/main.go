package main

// govc: contract-based deductive verifier for the go-spdx packages.
//
//	govc prove  [-fn regex] [-prop Cxx] [-tier quick|thorough] [-out file.json] [-keep] <repo>
//	govc list   <repo>
//	govc dump   -fn name <repo>       (print the VC of one function)

import (
	"encoding/json"
	"flag"
	"fmt"
	"go/token"
	"os"
	"regexp"
	"sort"
	"strings"
	"time"

	"golang.org/x/tools/go/ssa"
)

type ProveResult struct {
	Verdicts     []*VerdictJSON `json:"verdicts"`
	Functions    []string       `json:"functions"`
	Inlined      map[string]int `json:"inlined"`
	Externals    []string       `json:"externals"`
	Assumptions  []string       `json:"assumptions"`
	Errors       []string       `json:"errors"`
	Canaries     int            `json:"canaries"`
	CanaryProved []string       `json:"canary_proved"`
	WallS        float64        `json:"wall_s"`
	SolverMs     int64          `json:"solver_ms"`
	ByBackend    map[string]int `json:"by_backend"`
	Trusted      []string       `json:"trusted"`
	NotCovered   []string       `json:"not_covered"`
	DeadReturns  []string       `json:"dead_returns"`
}

type VerdictJSON struct {
	Name     string   `json:"name"`
	Func     string   `json:"func"`
	Kind     string   `json:"kind"`
	Props    []string `json:"props"`
	Status   string   `json:"status"`
	Backend  string   `json:"backend"`
	Ms       int64    `json:"ms"`
	SMTBytes int      `json:"smt_bytes"`
	Clause   string   `json:"clause,omitempty"`
	Where    string   `json:"where,omitempty"`
	Note     string   `json:"note,omitempty"`
	Model    string   `json:"model,omitempty"`
	Output   string   `json:"output,omitempty"`
	Script   string   `json:"script,omitempty"`
	Tried    []string `json:"tried,omitempty"`
}

func main() {
	if len(os.Args) < 2 {
		fmt.Fprintln(os.Stderr, "usage: govc prove|list|dump ...")
		os.Exit(2)
	}
	cmd := os.Args[1]
	fs := flag.NewFlagSet(cmd, flag.ExitOnError)
	fnRe := fs.String("fn", "", "regexp selecting functions")
	prop := fs.String("prop", "", "property id: only obligations tagged with it")
	tier := fs.String("tier", "quick", "quick or thorough")
	out := fs.String("out", "", "write JSON result here")
	keep := fs.Bool("keep", false, "keep SMT scripts")
	work := fs.String("work", "", "work directory for SMT scripts")
	timeout := fs.Int("timeout", 10, "per-solver timeout in seconds")
	seed := fs.Int("seed", 0, "solver random seed")
	verbose := fs.Bool("v", false, "verbose")
	shuffle := fs.Int("shuffle", 0, "robustness experiment: emit the assumptions of every VC in a pseudo-random order (seed)")
	groundCheck := fs.String("check", "", "ground: name of the table hypothesis")
	split := fs.Bool("split", false, "diagnostic: split conjunctive goals into separate obligations")
	oblRe := fs.String("obl", "", "regexp selecting obligations by name")
	fs.Parse(os.Args[2:])
	if fs.NArg() != 1 {
		fmt.Fprintln(os.Stderr, "need the repository directory")
		os.Exit(2)
	}
	dir := fs.Arg(0)
	t0 := time.Now()
	p, err := loadProgram(dir)
	if err != nil {
		fmt.Fprintln(os.Stderr, "govc: load error:", err)
		os.Exit(2)
	}
	switch cmd {
	case "list":
		for _, fn := range p.allFns {
			c := ""
			if p.contractOf(fn) != nil {
				c = "contract"
			} else if p.inlinable(fn) {
				c = "inlinable"
			}
			fmt.Printf("%-60s %s loops=%v\n", p.fnName(fn), c, hasLoop(fn))
		}
		return
	case "dump":
		for _, fn := range p.allFns {
			if p.fnName(fn) == *fnRe {
				res := p.encodeTop(fn)
				fmt.Print(res.vc.prelude(p.cs.RawSMT))
				for _, d := range res.vc.decls {
					fmt.Println(d)
				}
				for _, a := range res.vc.rootAssum {
					fmt.Println("(assert", a, ")")
				}
				for _, a := range res.vc.assum {
					fmt.Println("(assert", a, ")")
				}
				for _, o := range res.vc.obligs {
					fmt.Printf("; OBLIGATION %s [%s] guard=%s\n;   goal: %s\n", o.Name, strings.Join(o.Props, ","), o.Guard, o.Goal)
				}
				for _, e := range res.vc.errs {
					fmt.Println("; ERROR", e)
				}
			}
		}
		return
	case "ground":
		js, _ := json.Marshal(p.ground(*groundCheck))
		fmt.Println(string(js))
		return
	case "prove":
	default:
		fmt.Fprintln(os.Stderr, "unknown command", cmd)
		os.Exit(2)
	}
	var re *regexp.Regexp
	if *fnRe != "" {
		re = regexp.MustCompile(*fnRe)
	}
	cleanup := func() {}
	wd := *work
	if wd == "" {
		wd, err = os.MkdirTemp("", "govc")
		if err != nil {
			fmt.Fprintln(os.Stderr, err)
			os.Exit(2)
		}
		if !*keep {
			cleanup = func() { os.RemoveAll(wd) }
		}
	} else {
		os.MkdirAll(wd, 0o755)
	}
	pr := &Prover{workdir: wd, timeout: time.Duration(*timeout) * time.Second, tier: *tier, seed: *seed, keep: *keep}
	p.split = *split
	shuffleSeed = *shuffle
	if *oblRe != "" {
		p.oblRe = regexp.MustCompile(*oblRe)
	}
	res := p.prove(pr, re, *prop, *verbose)
	res.WallS = time.Since(t0).Seconds()
	if *out != "" {
		js, _ := json.MarshalIndent(res, "", " ")
		os.WriteFile(*out, js, 0o644)
	}
	failed := 0
	for _, v := range res.Verdicts {
		if v.Status != "proved" {
			failed++
			fmt.Printf("FAILED %-70s %-14s %s [%s] %s\n", v.Name, v.Status, v.Where, strings.Join(v.Props, ","), v.Clause)
		}
	}
	for _, e := range res.Errors {
		fmt.Println("ERROR", e)
	}
	for _, c := range res.CanaryProved {
		fmt.Println("VACUOUS", c)
	}
	fmt.Printf("govc: %d functions, %d obligations, %d discharged, %d failed, %d canaries (%d vacuous), %.1fs wall, %.1fs solver\n",
		len(res.Functions), len(res.Verdicts), len(res.Verdicts)-failed, failed, res.Canaries, len(res.CanaryProved), res.WallS, float64(res.SolverMs)/1000)
	cleanup()
	if failed > 0 {
		os.Exit(1)
	}
	if len(res.Errors) > 0 || len(res.CanaryProved) > 0 {
		os.Exit(2)
	}
}

// topLevel reports whether a function gets its own VC.
func (p *Program) topLevel(fn *ssa.Function) bool {
	if c := p.contractOf(fn); c != nil {
		return c.Trusted == ""
	}
	if !p.inlinable(fn) {
		return true // loops or recursion without contract: verified against the empty contract
	}
	// inlinable functions are verified at their call sites; roots (never called) get a VC of their own
	return len(p.callers[fn]) == 0
}

func (p *Program) prove(pr *Prover, re *regexp.Regexp, prop string, verbose bool) *ProveResult {
	res := &ProveResult{Inlined: map[string]int{}, ByBackend: map[string]int{}}
	okNotes, bad := p.checkInstantiatedParams()
	res.Errors = append(res.Errors, bad...)
	var jobs []func() *Verdict
	var canaries []func() *Verdict
	ext := map[string]bool{}
	assum := map[string]bool{}
	for _, fn := range p.allFns {
		name := p.fnName(fn)
		if re != nil && !re.MatchString(name) {
			continue
		}
		if c := p.contractOf(fn); c != nil && c.Trusted != "" {
			res.Trusted = append(res.Trusted, name+": "+c.Trusted)
			continue
		}
		if !p.topLevel(fn) {
			continue
		}
		if !p.apiReachable()[fn] {
			res.NotCovered = append(res.NotCovered, name)
			continue
		}
		fr := p.encodeTop(fn)
		vc := fr.vc
		res.Functions = append(res.Functions, name)
		for k, n := range fr.inlined {
			res.Inlined[k] += n
		}
		for k := range fr.externals {
			ext[k] = true
		}
		for _, a := range vc.assumed {
			assum[a] = true
		}
		for _, e := range vc.errs {
			res.Errors = append(res.Errors, name+": "+e)
		}
		prelude := vc.prelude(p.cs.RawSMT)
		axioms := p.axiomsFor(vc)
		selected := 0
		for _, o := range vc.obligs {
			if o.Kind != "canary" && (prop == "" || p.oblForAny(o, fn, prop)) && (p.oblRe == nil || p.oblRe.MatchString(o.Name)) {
				selected++
			}
		}
		for _, o := range vc.obligs {
			o := o
			if o.Kind == "canary" {
				if selected > 0 { // vacuity matters only where something is claimed
					canaries = append(canaries, func() *Verdict { return pr.discharge(vc, o, prelude, axioms) })
				}
				continue
			}
			if prop != "" && !p.oblForAny(o, fn, prop) {
				continue
			}
			if p.oblRe != nil && !p.oblRe.MatchString(o.Name) {
				continue
			}
			if p.split {
				parts := splitConj(o.Goal)
				if len(parts) > 1 {
					for k, g := range parts {
						o2 := *o
						o2.Name = fmt.Sprintf("%s.%d", o.Name, k)
						o2.Goal = g
						o2.Clause = g
						op := &o2
						jobs = append(jobs, func() *Verdict { return pr.discharge(vc, op, prelude, axioms) })
					}
					continue
				}
			}
			jobs = append(jobs, func() *Verdict { return pr.discharge(vc, o, prelude, axioms) })
		}
	}
	var canaryProved []*Oblig
	// lemmas of the contract files: closed formulas proved from the axioms (definitions) alone, once, and then
	// available to every VC like an axiom
	if re == nil || re.MatchString("lemmas") {
		for i, ax := range p.cs.Axioms {
			if ax.Kind != "lemma" {
				continue
			}
			if hasProp(ax.Props, "induct") {
				// proved by structural induction on the ghost datatype (cvc5 --quant-ind): the formula is kept quantified
				// and the recursive definitions it uses are given as quantified equations
				ivc := newVC(p.u, p.cs, "lemmas")
				ivc.declare("R0", "Bool")
				ivc.assume("R0")
				// abstract=<names>: the named predicates are treated as uninterpreted in this proof (a lemma proved for
				// arbitrary predicates holds for the defined ones); keeps the induction problem small
				restore := p.abstractPreds(ax.Props)
				env := &SpecEnv{vc: ivc, vars: map[string]TV{}, st: State{}}
				tv, err := env.tr(ax.E)
				if err != nil {
					restore()
					res.Errors = append(res.Errors, fmt.Sprintf("lemmas: %s:%d: %v", ax.File, ax.Line, err))
					continue
				}
				defs, err := p.defEquations(ivc, ax.E)
				if err != nil {
					restore()
					res.Errors = append(res.Errors, fmt.Sprintf("lemmas: %s:%d: %v", ax.File, ax.Line, err))
					continue
				}
				ivc.rootAssum = append(ivc.rootAssum, defs...)
				lbl := ax.Label
				if lbl == "" {
					lbl = fmt.Sprint(i)
				}
				o := &Oblig{Name: "lemmas/" + lbl, Kind: "lemma", Props: ax.Props, Guard: "R0", Goal: tv.T, Clause: ax.Src, Where: fmt.Sprintf("%s:%d", ax.File, ax.Line)}
				ivc.oblige(o)
				if prop != "" && !hasAnyProp(o.Props, prop) {
					restore()
					continue
				}
				if p.oblRe != nil && !p.oblRe.MatchString(o.Name) {
					restore()
					continue
				}
				if !containsStr(res.Functions, "lemmas") {
					res.Functions = append(res.Functions, "lemmas")
				}
				iprelude := ivc.prelude(p.cs.RawSMT)
				axioms := p.axiomsForInduction(ivc, o, ax.E)
				restore()
				jobs = append(jobs, func() *Verdict { return pr.dischargeInduct(ivc, o, iprelude, axioms) })
				continue
			}
			// every lemma gets its own small VC (own Skolem constants and own unfoldings of recursive definitions)
			lvc := newVC(p.u, p.cs, "lemmas")
			lvc.declare("R0", "Bool")
			lvc.assume("R0")
			env := &SpecEnv{vc: lvc, vars: map[string]TV{}, st: State{}}
			body := ax.E
			// an outermost universal quantifier is replaced by fresh constants (the goal becomes quantifier-free,
			// so the complete string procedures apply)
			bad := false
			if q, ok := body.(*EQuant); ok && q.Forall {
				for _, qv := range q.Vars {
					ty, err := p.u.tyOfTypeExpr(qv.Ty, p.cs)
					if err != nil {
						res.Errors = append(res.Errors, fmt.Sprintf("lemmas: %s:%d: %v", ax.File, ax.Line, err))
						bad = true
						continue
					}
					env.vars[qv.Name] = TV{lvc.fresh("sk_"+qv.Name, ty.Sort()), ty}
				}
				body = q.Body
			}
			if bad {
				continue
			}
			tv, err := env.tr(body)
			if err != nil {
				res.Errors = append(res.Errors, fmt.Sprintf("lemmas: %s:%d: %v", ax.File, ax.Line, err))
				continue
			}
			lbl := ax.Label
			if lbl == "" {
				lbl = fmt.Sprint(i)
			}
			o := &Oblig{Name: "lemmas/" + lbl, Kind: "lemma", Props: ax.Props, Guard: "R0", Goal: tv.T, Clause: ax.Src, Where: fmt.Sprintf("%s:%d", ax.File, ax.Line)}
			lvc.oblige(o)
			if prop != "" && !hasAnyProp(o.Props, prop) {
				continue
			}
			if p.oblRe != nil && !p.oblRe.MatchString(o.Name) {
				continue
			}
			if !containsStr(res.Functions, "lemmas") {
				res.Functions = append(res.Functions, "lemmas")
			}
			if hasProp(o.Props, "thorough") && pr.tier != "thorough" && p.oblRe == nil {
				res.Assumptions = append(res.Assumptions, "lemma "+o.Name+" is checked in the thorough tier only (string reasoning, no code involved): "+o.Clause)
				continue
			}
			lvc.rootAssum = append(lvc.rootAssum, lvc.unfoldInstances()...)
			prelude := lvc.prelude(p.cs.RawSMT)
			axioms := p.axiomsForLemma(lvc, o)
			jobs = append(jobs, func() *Verdict { return pr.discharge(lvc, o, prelude, axioms) })
		}
	}
	all := pr.dischargeAll(append(jobs, canaries...))
	for i, v := range all {
		res.SolverMs += v.Ms
		if i >= len(jobs) {
			res.Canaries++
			if v.Status == "proved" {
				canaryProved = append(canaryProved, v.Oblig)
			}
			continue
		}
		vj := &VerdictJSON{Name: v.Oblig.Name, Func: v.Oblig.Func, Kind: v.Oblig.Kind, Props: v.Oblig.Props, Status: v.Status, Backend: v.Backend,
			Ms: v.Ms, SMTBytes: v.SMTBytes, Clause: v.Oblig.Clause, Where: v.Oblig.Where, Note: v.Oblig.Note, Tried: v.Tried}
		if v.Status != "proved" {
			vj.Model = v.Model
			vj.Output = v.Output
			vj.Script = v.Script
		} else {
			res.ByBackend[v.Backend]++
		}
		res.Verdicts = append(res.Verdicts, vj)
		if verbose {
			fmt.Printf("%-12s %-70s %5dms %s\n", v.Status, v.Oblig.Name, v.Ms, v.Backend)
		}
	}
	// a return that is unreachable because an obligation of the same function failed is a consequence of
	// that failure (the code after a definite panic is dead), not a vacuous contract
	failedFn := map[string]bool{}
	for _, v := range res.Verdicts {
		if v.Status != "proved" {
			failedFn[v.Func] = true
		}
	}
	// a function is vacuous when every one of its returns is unreachable (a single dead return is dead code)
	nCanary := map[string]int{}
	for _, v := range all[len(jobs):] {
		nCanary[v.Oblig.Func]++
	}
	nProved := map[string]int{}
	for _, o := range canaryProved {
		nProved[o.Func]++
	}
	for _, o := range canaryProved {
		if !failedFn[o.Func] && nProved[o.Func] == nCanary[o.Func] {
			res.CanaryProved = append(res.CanaryProved, o.Name)
		} else if !failedFn[o.Func] {
			res.DeadReturns = append(res.DeadReturns, o.Name)
		}
	}
	if (prop == "" || containsStr(strings.Split(prop, "+"), "C13")) && re == nil {
		for _, v := range p.purityScan() {
			res.Verdicts = append(res.Verdicts, v)
			if v.Status == "proved" {
				res.ByBackend[v.Backend]++
			}
		}
		for k, why := range externWhitelist {
			res.Assumptions = append(res.Assumptions, "external "+k+": "+why)
		}
	}
	for k := range ext {
		res.Externals = append(res.Externals, k)
	}
	sort.Strings(res.Externals)
	for k := range assum {
		res.Assumptions = append(res.Assumptions, k)
	}
	res.Assumptions = append(res.Assumptions, okNotes...)
	sort.Strings(res.Assumptions)
	return res
}

// tags that are not property ids: tier / proof-method / visibility markers of a clause
var pseudoTag = map[string]bool{"thorough": true, "scoped": true, "induct": true, "lemmaonly": true}

// A check may cover several properties at once (-prop C06+C07): the property itself and those its argument rests on.
func hasAnyProp(props []string, plus string) bool {
	for _, p := range strings.Split(plus, "+") {
		if hasProp(props, p) {
			return true
		}
	}
	return false
}

func (p *Program) oblForAny(o *Oblig, fn *ssa.Function, plus string) bool {
	for _, q := range strings.Split(plus, "+") {
		if p.oblFor(o, fn, q) {
			return true
		}
	}
	return false
}

func hasProp(props []string, p string) bool {
	for _, q := range props {
		if q == p || (q == "*" && !pseudoTag[p] && !strings.Contains(p, "=")) {
			return true
		}
	}
	return false
}

// axiomsFor selects the contract-file axioms whose symbols occur in the VC.
func (p *Program) axiomsFor(vc *VC) []string {
	var out []string
	text := strings.Join(vc.assum, "\n")
	for _, o := range vc.obligs {
		text += o.Goal
	}
	included := map[int]bool{}
	for changed := true; changed; {
		changed = false
		for idx, ax := range p.cs.Axioms {
			if included[idx] {
				continue
			}
			if !revealedIn(ax.Props, vc.Func) {
				continue // a definition marked reveal=<regexp> is opaque except in the functions named
			}
			if ax.Kind == "lemma" && (!hasTriggers(ax.E) || hasProp(ax.Props, "lemmaonly")) {
				// a lemma without explicit triggers is a theorem in its own right (symmetry of the matching rule, ...),
				// not written for use by E-matching: it is not handed to the VCs (auto-selected patterns over pairs of
				// terms instantiate quadratically)
				continue
			}
			// only include axioms that mention a symbol used by the VC or by an axiom already included
			used := false
			occurs := func(sym string) bool {
				return strings.Contains(text, "("+sym+" ") || strings.Contains(text, " "+sym+")") || strings.Contains(text, " "+sym+" ")
			}
			for _, sym := range axiomSymbols(ax.E) {
				if occurs(sym) {
					used = true
				}
			}
			if used {
				// an axiom with explicit triggers can only be instantiated when, for one of its triggers, every opaque
				// spec function of the trigger occurs: otherwise it is dead weight (and drags its own symbols in)
				if q, ok := ax.E.(*EQuant); ok && len(q.Triggers) > 0 {
					canFire := false
					for _, trig := range q.Triggers {
						all := true
						for _, te := range trig {
							for _, sym := range axiomSymbols(te) {
								if f, isFn := p.cs.SpecFns[sym]; isFn && f.SMT == "" && !occurs(sym) {
									all = false
								}
							}
						}
						if all {
							canFire = true
						}
					}
					used = canFire
				}
			}
			if !used {
				continue
			}
			env := &SpecEnv{vc: vc, vars: map[string]TV{}, st: State{}}
			tv, err := env.tr(ax.E)
			if err != nil {
				vc.addErr("%s:%d: axiom: %v", ax.File, ax.Line, err)
				included[idx] = true
				continue
			}
			included[idx] = true
			changed = true
			out = append(out, tv.T)
			if hasProp(ax.Props, "scoped") {
				if vc.axiomTags == nil {
					vc.axiomTags = map[string][]string{}
				}
				vc.axiomTags[tv.T] = ax.Props
			}
			text += "\n" + tv.T
		}
	}
	// ground instances of ToLower for the literals of the function
	if strings.Contains(text, "(ToLower ") {
		for _, s := range p.allStringConsts() {
			out = append(out, eq("(ToLower "+smtString(s)+")", smtString(strings.ToLower(s))))
		}
	}
	return out
}

// revealedIn: an axiom tagged reveal=<regexp> is given only to the VCs of functions whose name matches.
func revealedIn(props []string, fn string) bool {
	for _, t := range props {
		if strings.HasPrefix(t, "reveal=") {
			re, err := regexp.Compile(strings.TrimPrefix(t, "reveal="))
			if err != nil || !re.MatchString(fn) {
				return false
			}
		}
	}
	return true
}

func hasTriggers(e Expr) bool {
	q, ok := e.(*EQuant)
	return ok && len(q.Triggers) > 0
}

// axiomsForLemma: a lemma is proved from the axioms (definitions) and from the lemmas stated BEFORE it in the
// contract files (no circularity: a lemma never sees itself or a later one).
func (p *Program) axiomsForLemma(vc *VC, o *Oblig) []string {
	var out []string
	self := len(p.cs.Axioms)
	for i, ax := range p.cs.Axioms {
		if ax.Kind == "lemma" && fmt.Sprintf("%s:%d", ax.File, ax.Line) == o.Where {
			self = i
		}
	}
	for i, ax := range p.cs.Axioms {
		if ax.Kind != "axiom" && !(ax.Kind == "lemma" && i < self && hasTriggers(ax.E)) {
			continue // (only lemmas written for E-matching, i.e. with explicit triggers, are handed on)
		}
		env := &SpecEnv{vc: vc, vars: map[string]TV{}, st: State{}}
		tv, err := env.tr(ax.E)
		if err != nil {
			continue
		}
		out = append(out, tv.T)
	}
	return out
}

// abstractPreds turns the predicates named by an abstract=<a|b> tag into uninterpreted spec functions and returns
// the function that undoes it.
func (p *Program) abstractPreds(props []string) func() {
	var names []string
	for _, t := range props {
		if strings.HasPrefix(t, "abstract=") {
			names = append(names, strings.Split(strings.TrimPrefix(t, "abstract="), "|")...)
		}
	}
	saved := map[string]*Pred{}
	for _, n := range names {
		pd, ok := p.cs.Preds[n]
		if !ok {
			continue
		}
		saved[n] = pd
		delete(p.cs.Preds, n)
		p.cs.SpecFns[n] = &SpecFn{Name: n, Params: pd.Params, Ret: &TypeExpr{Name: "bool"}}
	}
	return func() {
		for n, pd := range saved {
			delete(p.cs.SpecFns, n)
			p.cs.Preds[n] = pd
		}
	}
}

// axiomsForInduction: as axiomsForLemma, restricted to the axioms connected to the lemma through shared spec symbols
// (an induction proof is found on a small script or not at all).
func (p *Program) axiomsForInduction(vc *VC, o *Oblig, lemma Expr) []string {
	self := len(p.cs.Axioms)
	for i, ax := range p.cs.Axioms {
		if ax.Kind == "lemma" && fmt.Sprintf("%s:%d", ax.File, ax.Line) == o.Where {
			self = i
		}
	}
	syms := map[string]bool{}
	var addSyms func(e Expr)
	addSyms = func(e Expr) {
		for _, s := range axiomSymbols(e) {
			if syms[s] {
				continue
			}
			syms[s] = true
			if pd, ok := p.cs.Preds[s]; ok {
				addSyms(pd.Body)
			}
			if f, ok := p.cs.SpecFns[s]; ok && f.Body != nil {
				addSyms(f.Body)
			}
		}
	}
	addSyms(lemma)
	isSpec := func(s string) bool {
		if _, ok := p.cs.SpecFns[s]; ok {
			return p.cs.SpecFns[s].SMT == ""
		}
		return false
	}
	used := map[int]bool{}
	for changed := true; changed; {
		changed = false
		for i, ax := range p.cs.Axioms {
			if used[i] || (ax.Kind != "axiom" && !(ax.Kind == "lemma" && i < self && hasTriggers(ax.E))) {
				continue
			}
			// an axiom is relevant when every opaque spec function of one of its triggers is already in play
			q, ok := ax.E.(*EQuant)
			if !ok || len(q.Triggers) == 0 {
				continue
			}
			fire := false
			for _, trig := range q.Triggers {
				all, any := true, false
				for _, te := range trig {
					for _, s := range axiomSymbols(te) {
						if isSpec(s) {
							any = true
							if !syms[s] {
								all = false
							}
						}
					}
				}
				if all && any {
					fire = true
				}
			}
			if fire {
				used[i] = true
				changed = true
				addSyms(ax.E)
			}
		}
	}
	var out []string
	for i, ax := range p.cs.Axioms {
		if !used[i] {
			continue
		}
		env := &SpecEnv{vc: vc, vars: map[string]TV{}, st: State{}}
		if tv, err := env.tr(ax.E); err == nil {
			out = append(out, tv.T)
		}
	}
	return out
}

func containsStr(l []string, x string) bool {
	for _, y := range l {
		if y == x {
			return true
		}
	}
	return false
}

// defEquations: the recursive definitions reachable from e, each as a universally quantified equation.
func (p *Program) defEquations(vc *VC, e Expr) ([]string, error) {
	seen := map[string]bool{}
	var order []string
	var visit func(e Expr)
	visit = func(e Expr) {
		for _, sym := range axiomSymbols(e) {
			if seen[sym] {
				continue
			}
			seen[sym] = true
			if pd, ok := p.cs.Preds[sym]; ok {
				visit(pd.Body)
			}
			if f, ok := p.cs.SpecFns[sym]; ok && f.Body != nil {
				order = append(order, sym)
				visit(f.Body)
			}
		}
	}
	visit(e)
	sort.Strings(order)
	var out []string
	for _, name := range order {
		f := p.cs.SpecFns[name]
		vars := map[string]TV{}
		var bound, ts []string
		for _, prm := range f.Params {
			ty, err := p.u.tyOfTypeExpr(prm.Ty, p.cs)
			if err != nil {
				return nil, err
			}
			bn := fmt.Sprintf("%s$%d", prm.Name, vc.nextBound())
			vars[prm.Name] = TV{bn, ty}
			bound = append(bound, "("+bn+" "+ty.Sort()+")")
			ts = append(ts, bn)
		}
		env := &SpecEnv{vc: vc, vars: vars, st: State{}}
		body, err := env.tr(f.Body)
		if err != nil {
			return nil, err
		}
		lhs := "(" + name + " " + strings.Join(ts, " ") + ")"
		out = append(out, fmt.Sprintf("(forall (%s) (! (= %s %s) :pattern (%s)))", strings.Join(bound, " "), lhs, body.T, lhs))
	}
	return out, nil
}

func axiomSymbols(e Expr) []string {
	var out []string
	var walk func(e Expr)
	walk = func(e Expr) {
		switch x := e.(type) {
		case *ECall:
			out = append(out, x.Fn)
			for _, a := range x.Args {
				walk(a)
			}
		case *EBin:
			walk(x.L)
			walk(x.R)
		case *EUn:
			walk(x.X)
		case *EQuant:
			walk(x.Body)
		case *EField:
			walk(x.X)
		case *EIndex:
			walk(x.X)
			walk(x.I)
		case *EOld:
			walk(x.X)
		}
	}
	walk(e)
	return out
}

func (p *Program) allStringConsts() []string {
	seen := map[string]bool{}
	for _, fn := range p.allFns {
		if fnPkg(fn) != p.mainPkg {
			continue
		}
		for _, b := range fn.Blocks {
			for _, ins := range b.Instrs {
				for _, op := range ins.Operands(nil) {
					if c, ok := (*op).(*ssa.Const); ok && c.Value != nil && c.Value.Kind().String() == "String" {
						s := constantString(c)
						if len(s) <= 16 {
							seen[s] = true
						}
					}
				}
			}
		}
	}
	var out []string
	for s := range seen {
		out = append(out, s)
	}
	sort.Strings(out)
	return out
}

// apiReachable: functions reachable from the exported API of the verified packages.
func (p *Program) apiReachable() map[*ssa.Function]bool {
	if p.reach != nil {
		return p.reach
	}
	p.reach = map[*ssa.Function]bool{}
	var walk func(f *ssa.Function)
	walk = func(f *ssa.Function) {
		if p.reach[f] {
			return
		}
		p.reach[f] = true
		for _, c := range p.staticCallees(f) {
			walk(c)
		}
	}
	for _, fn := range p.allFns {
		if fn.Parent() == nil && fn.Signature.Recv() == nil && token.IsExported(fn.Name()) {
			walk(fn)
		}
	}
	return p.reach
}

// splitConj splits "(and a b c)" into its top-level conjuncts.
func splitConj(g string) []string {
	if !strings.HasPrefix(g, "(and ") {
		return []string{g}
	}
	body := g[5 : len(g)-1]
	var out []string
	depth, start := 0, 0
	inStr := false
	for i := 0; i < len(body); i++ {
		c := body[i]
		if c == '"' {
			inStr = !inStr
		}
		if inStr {
			continue
		}
		switch c {
		case '(':
			depth++
		case ')':
			depth--
		case ' ':
			if depth == 0 {
				if i > start {
					out = append(out, body[start:i])
				}
				start = i + 1
			}
		}
	}
	if start < len(body) {
		out = append(out, body[start:])
	}
	return out
}

// oblFor: does an obligation of fn belong to the check of property prop?  Explicitly tagged obligations belong to
// their properties.  Structural obligations (tag *: untagged clauses, type invariants, preconditions of untagged
// requires) belong to the properties the function serves - those named by some clause of its contract - and to the
// safety (C03) and frame (C13) checks, which cover every function.
func (p *Program) oblFor(o *Oblig, fn *ssa.Function, prop string) bool {
	star := false
	for _, q := range o.Props {
		if q == prop {
			return true
		}
		if q == "*" {
			star = true
		}
	}
	if !star || pseudoTag[prop] {
		return false
	}
	if prop == "C03" || prop == "C13" {
		return true
	}
	c := p.contractOf(fn)
	if c == nil {
		return false
	}
	has := func(cl *Clause) bool {
		for _, q := range cl.Props {
			if q == prop {
				return true
			}
		}
		return false
	}
	for _, cl := range c.Requires {
		if has(cl) {
			return true
		}
	}
	for _, cl := range append(append([]*Clause{}, c.Ensures...), c.Defines...) {
		if has(cl) {
			return true
		}
	}
	for _, l := range c.Loops {
		for _, cl := range l.Invs {
			if has(cl) {
				return true
			}
		}
	}
	for _, ca := range c.CallAsserts {
		if has(ca.Clause) {
			return true
		}
	}
	return false
}

// checkInstantiatedParams: an 'assume' at a call site that equates an uninterpreted spec function f with a predicate of the
// local state (Satisfies: m(t) <==> covered(t, allowedNodes)) is the instantiation of a contract proved for an ARBITRARY f.
// That step is sound only if nothing else constrains f: f must occur in no requires / typeinv, in no other assume, and only
// in axioms that are elimination rules of ANOTHER opaque function (every trigger contains an uninterpreted spec function
// other than f: the axiom defines that function in terms of f, for whatever f is).  Checked mechanically on every run.
func (p *Program) checkInstantiatedParams() (notes []string, bad []string) {
	isParam := func(sym string) bool {
		f, ok := p.cs.SpecFns[sym]
		return ok && f.Body == nil && f.SMT == ""
	}
	type site struct{ fn, src string }
	params := map[string][]site{}
	for _, name := range p.cs.funcNames() {
		c := p.cs.Funcs[name]
		for _, ca := range c.CallAsserts {
			if !ca.Assume {
				continue
			}
			q, ok := ca.Clause.E.(*EQuant)
			if !ok || len(q.Triggers) == 0 {
				continue
			}
			// the instantiated function is the head of the trigger
			for _, trig := range q.Triggers {
				for _, te := range trig {
					if call, ok := te.(*ECall); ok && isParam(call.Fn) {
						params[call.Fn] = append(params[call.Fn], site{name, ca.Clause.Src})
					}
				}
			}
		}
	}
	var names []string
	for f := range params {
		names = append(names, f)
	}
	sort.Strings(names)
	for _, f := range names {
		uses := func(e Expr) bool { return containsStr(axiomSymbols(e), f) }
		ok := true
		if len(params[f]) != 1 {
			bad = append(bad, fmt.Sprintf("contracts: %s is instantiated by %d assume clauses (at most one is sound)", f, len(params[f])))
			ok = false
		}
		for _, name := range p.cs.funcNames() {
			c := p.cs.Funcs[name]
			for _, cl := range c.Requires {
				if uses(cl.E) {
					bad = append(bad, fmt.Sprintf("contracts: %s:%d: a requires clause of %s constrains the instantiated spec function %s", cl.File, cl.Line, name, f))
					ok = false
				}
			}
		}
		for _, ti := range p.cs.TypeInvs {
			if uses(ti.Clause.E) {
				bad = append(bad, fmt.Sprintf("contracts: %s:%d: a type invariant constrains the instantiated spec function %s", ti.Clause.File, ti.Clause.Line, f))
				ok = false
			}
		}
		nAx := 0
		for _, ax := range p.cs.Axioms {
			if ax.Kind != "axiom" || !uses(ax.E) {
				continue
			}
			nAx++
			q, isQ := ax.E.(*EQuant)
			good := isQ && len(q.Triggers) > 0
			if good {
				for _, trig := range q.Triggers {
					other := false
					for _, te := range trig {
						for _, sym := range axiomSymbols(te) {
							if sym != f && isParam(sym) {
								other = true
							}
						}
					}
					if !other {
						good = false
					}
				}
			}
			if !good {
				bad = append(bad, fmt.Sprintf("contracts: %s:%d: an axiom constrains the instantiated spec function %s (it is not an elimination rule of another opaque function)", ax.File, ax.Line, f))
				ok = false
			}
		}
		if ok {
			notes = append(notes, fmt.Sprintf("instantiation of the uninterpreted %s at %s (%s): checked mechanically that %s occurs in no requires, type invariant or second assume, and only in %d axioms that are elimination rules of other opaque functions", f, params[f][0].fn, params[f][0].src, f, nAx))
		}
	}
	return notes, bad
}
