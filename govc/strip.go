package main

// Quantifier stripping: a sound weakening of the assumptions of a VC.  A
// quantified subformula that occurs positively in an assumption is replaced by
// true, one that occurs negatively by false; the result is implied by the
// original assumption, so "unsat" on the stripped script proves the original
// obligation.  Used to give quantifier-free string obligations to cvc5 / z3's
// default tactic, which do not cope with the (irrelevant) heap axioms.

import "strings"

type sx struct {
	atom string
	list []*sx
}

func parseSx(s string) *sx {
	pos := 0
	var parse func() *sx
	skip := func() {
		for pos < len(s) && (s[pos] == ' ' || s[pos] == '\n' || s[pos] == '\t') {
			pos++
		}
	}
	parse = func() *sx {
		skip()
		if pos >= len(s) {
			return nil
		}
		if s[pos] == '(' {
			pos++
			n := &sx{list: []*sx{}}
			for {
				skip()
				if pos >= len(s) {
					return n
				}
				if s[pos] == ')' {
					pos++
					return n
				}
				n.list = append(n.list, parse())
			}
		}
		start := pos
		if s[pos] == '"' {
			pos++
			for pos < len(s) {
				if s[pos] == '"' {
					if pos+1 < len(s) && s[pos+1] == '"' {
						pos += 2
						continue
					}
					pos++
					break
				}
				pos++
			}
			return &sx{atom: s[start:pos]}
		}
		for pos < len(s) && s[pos] != ' ' && s[pos] != '(' && s[pos] != ')' && s[pos] != '\n' && s[pos] != '\t' {
			pos++
		}
		return &sx{atom: s[start:pos]}
	}
	return parse()
}

func (n *sx) String() string {
	if n == nil {
		return ""
	}
	if n.list == nil {
		return n.atom
	}
	var b strings.Builder
	b.WriteByte('(')
	for i, c := range n.list {
		if i > 0 {
			b.WriteByte(' ')
		}
		b.WriteString(c.String())
	}
	b.WriteByte(')')
	return b.String()
}

func (n *sx) head() string {
	if n != nil && n.list != nil && len(n.list) > 0 && n.list[0].list == nil {
		return n.list[0].atom
	}
	return ""
}

func (n *sx) hasQuant() bool {
	if n == nil {
		return false
	}
	if n.list == nil {
		return false
	}
	h := n.head()
	if h == "forall" || h == "exists" {
		return true
	}
	for _, c := range n.list {
		if c.hasQuant() {
			return true
		}
	}
	return false
}

func atomSx(a string) *sx { return &sx{atom: a} }

// strip returns a formula implied by n (pos=true) or implying n (pos=false) without quantifiers.
func strip(n *sx, pos bool) *sx {
	if !n.hasQuant() {
		return n
	}
	repl := func() *sx {
		if pos {
			return atomSx("true")
		}
		return atomSx("false")
	}
	switch n.head() {
	case "and", "or":
		out := &sx{list: []*sx{n.list[0]}}
		for _, c := range n.list[1:] {
			out.list = append(out.list, strip(c, pos))
		}
		return out
	case "not":
		return &sx{list: []*sx{n.list[0], strip(n.list[1], !pos)}}
	case "=>":
		out := &sx{list: []*sx{n.list[0]}}
		for i, c := range n.list[1:] {
			if i < len(n.list)-2 {
				out.list = append(out.list, strip(c, !pos))
			} else {
				out.list = append(out.list, strip(c, pos))
			}
		}
		return out
	case "!":
		return strip(n.list[1], pos)
	}
	return repl()
}

// stripAssumption weakens one assumption string.
func stripAssumption(a string) string {
	if !containsQuant(a) {
		return a
	}
	return strip(parseSx(a), true).String()
}

// unaryDef recognises an assumption of the form (forall ((v1 S1) .. (vn Sn)) (! BODY :pattern ((f v1 .. vn)))): the
// definition (or a property) of an opaque spec function, written for E-matching on f applied to its bound variables.
type unaryDef struct {
	fn   string
	vs   []string
	body *sx
}

// lemmaMode: in the small VCs of pure lemmas every definition (also of several arguments, also the class-run
// characterisations) is instantiated at every ground application.
func asUnaryDefMode(a string, lemmaMode bool) *unaryDef {
	d := asUnaryDef0(a)
	if d == nil {
		return nil
	}
	if !lemmaMode && (strings.HasPrefix(d.fn, "runLen_") || strings.HasPrefix(d.fn, "classRun_")) {
		// the characterisation of a maximal class run is a string fact that slows cvc5 down by orders of magnitude
		// wherever it is not needed; in function VCs it stays available to the E-matching back ends only
		return nil
	}
	return d
}

func asUnaryDef(a string) *unaryDef { return asUnaryDefMode(a, false) }

func asUnaryDef0(a string) *unaryDef {
	if !strings.HasPrefix(a, "(forall ((") {
		return nil
	}
	n := parseSx(a)
	if n == nil || len(n.list) != 3 || n.head() != "forall" {
		return nil
	}
	bs := n.list[1]
	if bs.list == nil || len(bs.list) == 0 {
		return nil
	}
	var vs []string
	for _, b := range bs.list {
		if len(b.list) != 2 {
			return nil
		}
		vs = append(vs, b.list[0].atom)
	}
	b := n.list[2]
	if b.head() != "!" || len(b.list) != 4 || b.list[2].atom != ":pattern" {
		return nil
	}
	pats := b.list[3]
	if pats.list == nil || len(pats.list) != 1 {
		return nil
	}
	pt := pats.list[0]
	if pt.list == nil || len(pt.list) != len(vs)+1 || pt.list[0].list != nil {
		return nil
	}
	for i, v := range vs {
		if pt.list[i+1].atom != v {
			return nil
		}
	}
	return &unaryDef{fn: pt.list[0].atom, vs: vs, body: b.list[1]}
}

func substSx(n *sx, m map[string]*sx) *sx {
	if n.list == nil {
		if by, ok := m[n.atom]; ok {
			return by
		}
		return n
	}
	out := &sx{list: make([]*sx, len(n.list))}
	for i, c := range n.list {
		out.list[i] = substSx(c, m)
	}
	return out
}

// groundInstances: the instances of the definitions at the ground applications (f t1 .. tn) that occur in the given
// quantifier-free formulas (and, transitively, in the instances).  Instances of assumed universal formulas: sound.
// Unary definitions are instantiated at every ground application in the formulas; definitions of functions of
// several arguments only at applications in the goal (the last formula) and in instances already produced, which
// keeps the weakening small.
func groundInstances(defs []*unaryDef, formulas []string, limit int) []string {
	return groundInstancesMode(defs, formulas, limit, false)
}

func groundInstancesMode(defs []*unaryDef, formulas []string, limit int, allFull bool) []string {
	byFn := map[string][]*unaryDef{}
	for _, d := range defs {
		byFn[d.fn] = append(byFn[d.fn], d)
	}
	if len(byFn) == 0 {
		return nil
	}
	seen := map[string]bool{}
	var out []string
	type item struct {
		n    *sx
		full bool // n-ary definitions may be instantiated at the applications in this formula
		gen  int  // 0: a given formula; k: an instance produced from generation k-1 (chains are cut at 3)
	}
	var work []item
	var goalSks []string
	if allFull && len(formulas) > 0 {
		for _, w := range strings.FieldsFunc(formulas[len(formulas)-1], func(r rune) bool { return r == ' ' || r == '(' || r == ')' }) {
			if strings.HasPrefix(w, "sk_") {
				goalSks = append(goalSks, w)
			}
		}
	}
	for i, f := range formulas {
		mentions := false
		for fn := range byFn {
			if strings.Contains(f, "("+fn+" ") {
				mentions = true
				break
			}
		}
		if mentions {
			full := i == len(formulas)-1
			if allFull && !full {
				// lemma VCs are shared: only the formulas about this lemma's own Skolem constants count
				for _, sk := range goalSks {
					if strings.Contains(f, sk) {
						full = true
						break
					}
				}
				if !full {
					continue
				}
			}
			work = append(work, item{parseSx(f), full, 0})
		}
	}
	full := false
	gen := 0
	var walk func(n *sx)
	walk = func(n *sx) {
		if n == nil || n.list == nil {
			return
		}
		h := n.head()
		if h == "forall" || h == "exists" {
			return
		}
		if ds, ok := byFn[h]; ok {
			for _, d := range ds {
				if len(n.list) != len(d.vs)+1 || (len(d.vs) > 1 && !full) {
					continue
				}
				args := n.String()
				if strings.Contains(args, "$") {
					continue
				}
				key := d.fn + "|" + strings.Join(d.vs, ",") + "|" + args
				if !seen[key] && len(out) < limit {
					seen[key] = true
					m := map[string]*sx{}
					for i, v := range d.vs {
						m[v] = n.list[i+1]
					}
					inst := strip(substSx(d.body, m), true)
					txt := inst.String()
					if len(txt) > 20000 {
						continue
					}
					out = append(out, txt)
					if gen < 3 {
						work = append(work, item{inst, true, gen + 1})
					}
				}
			}
		}
		for _, c := range n.list {
			walk(c)
		}
	}
	for len(work) > 0 && len(out) < limit {
		it := work[0]
		work = work[1:]
		full = it.full
		gen = it.gen
		walk(it.n)
	}
	return out
}

// ---- relevance slicing (a further sound weakening for the string back end) ----
//
// sliceAssumptions keeps, of a list of quantifier-free assumptions, the reach-chain skeleton and the conjuncts that
// are connected to the goal through shared non-hub symbols.  Dropping assumptions is sound; a proof found on the
// slice is a proof of the obligation.  cvc5 decides small string problems at once and is lost on the same facts
// buried in a whole function's path condition.

func symbolsOf(t string, universe map[string]bool, into map[string]bool) {
	i := 0
	for i < len(t) {
		c := t[i]
		switch {
		case c == '"':
			i++
			for i < len(t) {
				if t[i] == '"' {
					if i+1 < len(t) && t[i+1] == '"' {
						i += 2
						continue
					}
					break
				}
				i++
			}
			i++
		case c == '(' || c == ')' || c == ' ' || c == '\n' || c == '\t':
			i++
		default:
			j := i
			for j < len(t) && t[j] != '(' && t[j] != ')' && t[j] != ' ' && t[j] != '\n' && t[j] != '\t' {
				j++
			}
			if w := t[i:j]; universe[w] {
				into[w] = true
			}
			i = j
		}
	}
}

func isReachAtom(n *sx) bool {
	return n != nil && n.list == nil && (strings.HasPrefix(n.atom, "R_") || n.atom == "R0" || strings.HasPrefix(n.atom, "R!"))
}

func flattenAnd(n *sx, out *[]*sx) {
	if n.head() == "and" {
		for _, c := range n.list[1:] {
			flattenAnd(c, out)
		}
		return
	}
	*out = append(*out, n)
}

func sliceAssumptions(assums []string, goal string, universe map[string]bool) []string {
	type piece struct {
		text  string
		syms  map[string]bool
		chain bool
	}
	var pieces []*piece
	add := func(text string, chain bool) {
		p := &piece{text: text, chain: chain, syms: map[string]bool{}}
		if !chain {
			symbolsOf(text, universe, p.syms)
			for k := range p.syms {
				if strings.HasPrefix(k, "R_") || k == "R0" {
					delete(p.syms, k)
				}
			}
		}
		pieces = append(pieces, p)
	}
	for _, a := range assums {
		if strings.HasPrefix(a, "(=> R") {
			n := parseSx(a)
			if n != nil && len(n.list) == 3 && isReachAtom(n.list[1]) {
				var cs []*sx
				flattenAnd(n.list[2], &cs)
				for _, c := range cs {
					if isReachAtom(c) {
						add("(=> "+n.list[1].atom+" "+c.atom+")", true)
					} else {
						add("(=> "+n.list[1].atom+" "+c.String()+")", false)
					}
				}
				continue
			}
		}
		add(a, false)
	}
	count := map[string]int{}
	for _, p := range pieces {
		for k := range p.syms {
			count[k]++
		}
	}
	hubLimit := len(pieces) / 3
	if hubLimit < 25 {
		hubLimit = 25
	}
	S := map[string]bool{}
	symbolsOf(goal, universe, S)
	used := make([]bool, len(pieces))
	for changed := true; changed; {
		changed = false
		for i, p := range pieces {
			if used[i] || p.chain {
				continue
			}
			hit := false
			for k := range p.syms {
				if S[k] {
					hit = true
					break
				}
			}
			if !hit {
				continue
			}
			used[i] = true
			changed = true
			for k := range p.syms {
				if count[k] <= hubLimit {
					S[k] = true
				}
			}
		}
	}
	var out []string
	for i, p := range pieces {
		if p.chain || used[i] {
			out = append(out, p.text)
		}
	}
	return out
}
