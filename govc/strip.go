package main

// Quantifier stripping: a sound weakening of the assumptions of a VC.  A
// quantified subformula that occurs positively in an assumption is replaced by
// true, one that occurs negatively by false; the result is implied by the
// original assumption, so "unsat" on the stripped script proves the original
// obligation.  Used to give quantifier-free string obligations to cvc5 / z3's
// default tactic, which do not cope with the (irrelevant) heap axioms.

import "strings"

type sx struct {
	atom string
	list []*sx
}

func parseSx(s string) *sx {
	pos := 0
	var parse func() *sx
	skip := func() {
		for pos < len(s) && (s[pos] == ' ' || s[pos] == '\n' || s[pos] == '\t') {
			pos++
		}
	}
	parse = func() *sx {
		skip()
		if pos >= len(s) {
			return nil
		}
		if s[pos] == '(' {
			pos++
			n := &sx{list: []*sx{}}
			for {
				skip()
				if pos >= len(s) {
					return n
				}
				if s[pos] == ')' {
					pos++
					return n
				}
				n.list = append(n.list, parse())
			}
		}
		start := pos
		if s[pos] == '"' {
			pos++
			for pos < len(s) {
				if s[pos] == '"' {
					if pos+1 < len(s) && s[pos+1] == '"' {
						pos += 2
						continue
					}
					pos++
					break
				}
				pos++
			}
			return &sx{atom: s[start:pos]}
		}
		for pos < len(s) && s[pos] != ' ' && s[pos] != '(' && s[pos] != ')' && s[pos] != '\n' && s[pos] != '\t' {
			pos++
		}
		return &sx{atom: s[start:pos]}
	}
	return parse()
}

func (n *sx) String() string {
	if n == nil {
		return ""
	}
	if n.list == nil {
		return n.atom
	}
	var b strings.Builder
	b.WriteByte('(')
	for i, c := range n.list {
		if i > 0 {
			b.WriteByte(' ')
		}
		b.WriteString(c.String())
	}
	b.WriteByte(')')
	return b.String()
}

func (n *sx) head() string {
	if n != nil && n.list != nil && len(n.list) > 0 && n.list[0].list == nil {
		return n.list[0].atom
	}
	return ""
}

func (n *sx) hasQuant() bool {
	if n == nil {
		return false
	}
	if n.list == nil {
		return false
	}
	h := n.head()
	if h == "forall" || h == "exists" {
		return true
	}
	for _, c := range n.list {
		if c.hasQuant() {
			return true
		}
	}
	return false
}

func atomSx(a string) *sx { return &sx{atom: a} }

// strip returns a formula implied by n (pos=true) or implying n (pos=false) without quantifiers.
func strip(n *sx, pos bool) *sx {
	if !n.hasQuant() {
		return n
	}
	repl := func() *sx {
		if pos {
			return atomSx("true")
		}
		return atomSx("false")
	}
	switch n.head() {
	case "and", "or":
		out := &sx{list: []*sx{n.list[0]}}
		for _, c := range n.list[1:] {
			out.list = append(out.list, strip(c, pos))
		}
		return out
	case "not":
		return &sx{list: []*sx{n.list[0], strip(n.list[1], !pos)}}
	case "=>":
		out := &sx{list: []*sx{n.list[0]}}
		for i, c := range n.list[1:] {
			if i < len(n.list)-2 {
				out.list = append(out.list, strip(c, !pos))
			} else {
				out.list = append(out.list, strip(c, pos))
			}
		}
		return out
	case "!":
		return strip(n.list[1], pos)
	}
	return repl()
}

// stripAssumption weakens one assumption string.
func stripAssumption(a string) string {
	if !containsQuant(a) {
		return a
	}
	return strip(parseSx(a), true).String()
}

// unaryDef recognises an assumption of the form (forall ((v S)) (! BODY :pattern ((f v)))): the definition (or a
// property) of an opaque unary spec function, written for E-matching on f.
type unaryDef struct {
	fn, v string
	body  *sx
}

func asUnaryDef(a string) *unaryDef {
	if !strings.HasPrefix(a, "(forall ((") {
		return nil
	}
	n := parseSx(a)
	if n == nil || len(n.list) != 3 || n.head() != "forall" {
		return nil
	}
	bs := n.list[1]
	if bs.list == nil || len(bs.list) != 1 || len(bs.list[0].list) != 2 {
		return nil
	}
	v := bs.list[0].list[0].atom
	b := n.list[2]
	if b.head() != "!" || len(b.list) != 4 || b.list[2].atom != ":pattern" {
		return nil
	}
	pats := b.list[3]
	if pats.list == nil || len(pats.list) != 1 {
		return nil
	}
	pt := pats.list[0]
	if pt.list == nil || len(pt.list) != 2 || pt.list[0].list != nil || pt.list[1].atom != v {
		return nil
	}
	return &unaryDef{fn: pt.list[0].atom, v: v, body: b.list[1]}
}

func substSx(n *sx, v string, by *sx) *sx {
	if n.list == nil {
		if n.atom == v {
			return by
		}
		return n
	}
	out := &sx{list: make([]*sx, len(n.list))}
	for i, c := range n.list {
		out.list[i] = substSx(c, v, by)
	}
	return out
}

// groundInstances: the instances of the unary definitions at the ground applications (f t) that occur in the given
// quantifier-free formulas (and, transitively, in the instances).  Instances of assumed universal formulas: sound.
func groundInstances(defs []*unaryDef, formulas []string, limit int) []string {
	byFn := map[string][]*unaryDef{}
	for _, d := range defs {
		byFn[d.fn] = append(byFn[d.fn], d)
	}
	if len(byFn) == 0 {
		return nil
	}
	seen := map[string]bool{}
	var out []string
	var work []*sx
	for _, f := range formulas {
		mentions := false
		for fn := range byFn {
			if strings.Contains(f, "("+fn+" ") {
				mentions = true
				break
			}
		}
		if mentions {
			work = append(work, parseSx(f))
		}
	}
	var walk func(n *sx, bound bool)
	for len(work) > 0 && len(out) < limit {
		n := work[0]
		work = work[1:]
		walk = func(n *sx, bound bool) {
			if n == nil || n.list == nil {
				return
			}
			h := n.head()
			if h == "forall" || h == "exists" {
				return
			}
			if ds, ok := byFn[h]; ok && len(n.list) == 2 {
				arg := n.list[1].String()
				if !strings.Contains(arg, "$") {
					for _, d := range ds {
						key := d.fn + "|" + d.v + "|" + arg
						if !seen[key] && len(out) < limit {
							seen[key] = true
							inst := strip(substSx(d.body, d.v, n.list[1]), true)
							out = append(out, inst.String())
							work = append(work, inst)
						}
					}
				}
			}
			for _, c := range n.list {
				walk(c, bound)
			}
		}
		walk(n, false)
	}
	return out
}
