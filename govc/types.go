package main

// Type abstraction shared by the SSA encoder and the contract language.
// Every Go type that occurs in the verified packages is mapped to a Ty, and
// every Ty has one SMT sort.  See DESIGN.md section 2.3 (memory model).

import (
	"fmt"
	"go/types"
	"sort"
	"strings"
)

type Kind int

const (
	KInt Kind = iota
	KBool
	KString
	KRef     // pointer to a named struct: Int, 0 = nil
	KSlice   // slice header (arr,len,cap); Elem
	KPtr     // pointer to a non-struct cell or to a string field: datatype Ptr; Elem
	KErr     // error interface: datatype Err
	KMap     // map reference: Int, 0 = nil; Key, Val
	KStruct  // struct value: datatype SV_<Name>
	KAny     // any other interface value (only produced for fmt varargs): Int
	KArrPtr  // pointer to an array [n]Elem: the array id, Int
	KTuple   // multiple results
	KClosure // function value (only MakeClosure / *ssa.Function operands)
	KGhost   // named SMT sort declared in a contract file
	KRegexp  // *regexp.Regexp: the pattern string
	KSeq     // ghost: an SMT array Int -> Elem (the contents of a backing array)
)

type Ty struct {
	K     Kind
	Name  string // struct name (KRef, KStruct), ghost sort (KGhost)
	Elem  *Ty
	Key   *Ty
	Val   *Ty
	Tuple []*Ty
	N     int64 // array length for KArrPtr
}

var (
	tyInt    = &Ty{K: KInt}
	tyBool   = &Ty{K: KBool}
	tyString = &Ty{K: KString}
	tyErr    = &Ty{K: KErr}
	tyAny    = &Ty{K: KAny}
	tyRegexp = &Ty{K: KRegexp}
)

func (t *Ty) Sort() string {
	switch t.K {
	case KInt, KRef, KMap, KAny, KArrPtr:
		return "Int"
	case KBool:
		return "Bool"
	case KString, KRegexp:
		return "String"
	case KSlice:
		return "Slice"
	case KPtr:
		return "Ptr"
	case KErr:
		return "Err"
	case KStruct:
		return "SV_" + t.Name
	case KGhost:
		return t.Name
	case KSeq:
		return "(Array Int " + t.Elem.Sort() + ")"
	}
	panic(fmt.Sprintf("no sort for type kind %d", t.K))
}

// MemKey is the name fragment used for per-type memories and counters.
func (t *Ty) MemKey() string {
	switch t.K {
	case KInt:
		return "int"
	case KBool:
		return "bool"
	case KString:
		return "string"
	case KRef:
		return "ref_" + t.Name
	case KSlice:
		return "slice_" + t.Elem.MemKey()
	case KPtr:
		return "ptr_" + t.Elem.MemKey()
	case KErr:
		return "err"
	case KMap:
		return "map_" + t.Key.MemKey() + "_" + t.Val.MemKey()
	case KStruct:
		return "sv_" + t.Name
	case KAny:
		return "any"
	case KArrPtr:
		return "arrp_" + t.Elem.MemKey()
	case KGhost:
		return "g_" + t.Name
	case KRegexp:
		return "regexp"
	case KSeq:
		return "seq_" + t.Elem.MemKey()
	}
	return "unk"
}

func (t *Ty) String() string {
	switch t.K {
	case KRef:
		return "*" + t.Name
	case KSlice:
		return "[]" + t.Elem.String()
	case KPtr:
		return "*" + t.Elem.String()
	case KMap:
		return "map[" + t.Key.String() + "]" + t.Val.String()
	case KStruct:
		return t.Name
	case KGhost:
		return t.Name
	case KTuple:
		var s []string
		for _, e := range t.Tuple {
			s = append(s, e.String())
		}
		return "(" + strings.Join(s, ",") + ")"
	}
	return t.MemKey()
}

func sameTy(a, b *Ty) bool {
	if a == nil || b == nil {
		return a == b
	}
	if a.K != b.K || a.Name != b.Name {
		return false
	}
	switch a.K {
	case KSlice, KPtr, KArrPtr, KSeq:
		return sameTy(a.Elem, b.Elem)
	case KMap:
		return sameTy(a.Key, b.Key) && sameTy(a.Val, b.Val)
	}
	return true
}

// Zero returns the SMT term of the Go zero value.
func (t *Ty) Zero(u *Universe) string {
	switch t.K {
	case KInt, KRef, KMap, KAny, KArrPtr:
		return "0"
	case KBool:
		return "false"
	case KString, KRegexp:
		return "\"\""
	case KSlice:
		return "(mk-slice 0 0 0)"
	case KPtr:
		return "pnil"
	case KErr:
		return "noerr"
	case KStruct:
		si := u.Structs[t.Name]
		parts := []string{"(mk_" + t.Name}
		for _, f := range si.Fields {
			parts = append(parts, f.Ty.Zero(u))
		}
		return strings.Join(parts, " ") + ")"
	}
	panic("zero of " + t.String())
}

type FieldInfo struct {
	Name string
	Ty   *Ty
}

type StructInfo struct {
	Name   string
	Fields []FieldInfo
}

func (s *StructInfo) Field(name string) *FieldInfo {
	for i := range s.Fields {
		if s.Fields[i].Name == name {
			return &s.Fields[i]
		}
	}
	return nil
}

// Universe collects every struct type, element type and string field that the
// encoder meets, so that the SMT prelude can declare the sorts.
type Universe struct {
	Structs     map[string]*StructInfo
	structOrder []string
	// string-typed fields whose address may flow as a *string value
	StrFields []string // "T.f", index = field id
	Ghosts    map[string]*GhostSort
	ElemTys   map[string]*Ty
}

func newUniverse() *Universe {
	return &Universe{Structs: map[string]*StructInfo{}, Ghosts: map[string]*GhostSort{}}
}

func (u *Universe) strFieldID(T, f string) int {
	k := T + "." + f
	for i, s := range u.StrFields {
		if s == k {
			return i + 1
		}
	}
	u.StrFields = append(u.StrFields, k)
	return len(u.StrFields)
}

// tyOf maps a go/types type to a Ty.  Unknown shapes yield an error: the
// function that uses them is "outside the subset" and its obligations fail.
func (u *Universe) tyOf(t types.Type) (*Ty, error) {
	switch x := t.(type) {
	case *types.Basic:
		switch {
		case x.Info()&types.IsBoolean != 0:
			return tyBool, nil
		case x.Info()&types.IsInteger != 0:
			return tyInt, nil
		case x.Info()&types.IsString != 0:
			return tyString, nil
		case x.Kind() == types.UntypedNil:
			return &Ty{K: KRef, Name: "?nil"}, nil
		}
		return nil, fmt.Errorf("unsupported basic type %s", x)
	case *types.Alias:
		return u.tyOf(types.Unalias(x))
	case *types.Named:
		if x.Obj().Pkg() == nil && x.Obj().Name() == "error" {
			return tyErr, nil
		}
		switch ut := x.Underlying().(type) {
		case *types.Struct:
			name := x.Obj().Name()
			if x.Obj().Pkg() != nil && x.Obj().Pkg().Name() == "regexp" && name == "Regexp" {
				return nil, fmt.Errorf("regexp.Regexp by value")
			}
			if _, ok := u.Structs[name]; !ok {
				si := &StructInfo{Name: name}
				u.Structs[name] = si
				u.structOrder = append(u.structOrder, name)
				for i := 0; i < ut.NumFields(); i++ {
					ft, err := u.tyOf(ut.Field(i).Type())
					if err != nil {
						return nil, fmt.Errorf("field %s.%s: %v", name, ut.Field(i).Name(), err)
					}
					si.Fields = append(si.Fields, FieldInfo{Name: ut.Field(i).Name(), Ty: ft})
				}
			}
			return &Ty{K: KStruct, Name: name}, nil
		case *types.Interface:
			return tyAny, nil
		default:
			return u.tyOf(ut)
		}
	case *types.Pointer:
		el := x.Elem()
		if n, ok := types.Unalias(el).(*types.Named); ok {
			if n.Obj().Pkg() != nil && n.Obj().Pkg().Path() == "regexp" && n.Obj().Name() == "Regexp" {
				return tyRegexp, nil
			}
			if _, ok := n.Underlying().(*types.Struct); ok {
				st, err := u.tyOf(n)
				if err != nil {
					return nil, err
				}
				return &Ty{K: KRef, Name: st.Name}, nil
			}
		}
		if a, ok := el.Underlying().(*types.Array); ok {
			et, err := u.tyOf(a.Elem())
			if err != nil {
				return nil, err
			}
			return &Ty{K: KArrPtr, Elem: et, N: a.Len()}, nil
		}
		et, err := u.tyOf(el)
		if err != nil {
			return nil, err
		}
		return &Ty{K: KPtr, Elem: et}, nil
	case *types.Slice:
		et, err := u.tyOf(x.Elem())
		if err != nil {
			return nil, err
		}
		return &Ty{K: KSlice, Elem: et}, nil
	case *types.Map:
		kt, err := u.tyOf(x.Key())
		if err != nil {
			return nil, err
		}
		vt, err := u.tyOf(x.Elem())
		if err != nil {
			return nil, err
		}
		return &Ty{K: KMap, Key: kt, Val: vt}, nil
	case *types.Interface:
		if x.NumMethods() == 1 && x.Method(0).Name() == "Error" {
			return tyErr, nil
		}
		return tyAny, nil
	case *types.Tuple:
		tt := &Ty{K: KTuple}
		for i := 0; i < x.Len(); i++ {
			et, err := u.tyOf(x.At(i).Type())
			if err != nil {
				return nil, err
			}
			tt.Tuple = append(tt.Tuple, et)
		}
		return tt, nil
	case *types.Signature:
		return &Ty{K: KClosure}, nil
	case *types.Struct:
		return nil, fmt.Errorf("anonymous struct")
	}
	return nil, fmt.Errorf("unsupported type %s", t)
}

func (u *Universe) structNames() []string {
	s := append([]string(nil), u.structOrder...)
	sort.Strings(s)
	return s
}

// sanitize makes a Go-ish name usable inside an SMT symbol.
func sanitize(s string) string {
	var b strings.Builder
	for _, r := range s {
		switch {
		case r >= 'a' && r <= 'z', r >= 'A' && r <= 'Z', r >= '0' && r <= '9', r == '_', r == '.', r == '$', r == '@':
			b.WriteRune(r)
		default:
			b.WriteRune('_')
		}
	}
	return b.String()
}

func smtString(s string) string {
	var b strings.Builder
	b.WriteByte('"')
	for i := 0; i < len(s); i++ {
		c := s[i]
		switch {
		case c == '"':
			b.WriteString("\"\"")
		case c >= 32 && c < 127 && c != '\\':
			b.WriteByte(c)
		default:
			fmt.Fprintf(&b, "\\u{%x}", c)
		}
	}
	b.WriteByte('"')
	return b.String()
}

func smtInt(n int64) string {
	if n < 0 {
		return fmt.Sprintf("(- %d)", -n)
	}
	return fmt.Sprintf("%d", n)
}

func and(xs ...string) string {
	var ys []string
	for _, x := range xs {
		if x == "true" || x == "" {
			continue
		}
		ys = append(ys, x)
	}
	switch len(ys) {
	case 0:
		return "true"
	case 1:
		return ys[0]
	}
	return "(and " + strings.Join(ys, " ") + ")"
}

func or(xs ...string) string {
	var ys []string
	for _, x := range xs {
		if x == "false" || x == "" {
			continue
		}
		ys = append(ys, x)
	}
	switch len(ys) {
	case 0:
		return "false"
	case 1:
		return ys[0]
	}
	return "(or " + strings.Join(ys, " ") + ")"
}

func not(x string) string {
	if x == "true" {
		return "false"
	}
	if x == "false" {
		return "true"
	}
	return "(not " + x + ")"
}

func implies(a, b string) string {
	if a == "true" {
		return b
	}
	return "(=> " + a + " " + b + ")"
}

func eq(a, b string) string { return "(= " + a + " " + b + ")" }

func sel(a, i string) string { return "(select " + a + " " + i + ")" }

func store(a, i, v string) string { return "(store " + a + " " + i + " " + v + ")" }

// GhostSort is an SMT datatype or uninterpreted sort declared by a contract file.
type GhostSort struct {
	Name string
	Decl string // raw SMT declaration
}
