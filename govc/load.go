package main

// Loading: go/packages + go/ssa over /repo's current working tree with the
// build tag "verif"; contracts from the //@ comments of every file.

import (
	"fmt"
	"go/token"
	"go/types"
	"os"
	"regexp"
	"sort"
	"strings"

	"golang.org/x/tools/go/packages"
	"golang.org/x/tools/go/ssa"
	"golang.org/x/tools/go/ssa/ssautil"
)

type Program struct {
	dir         string
	fset        *token.FileSet
	pkgs        []*packages.Package
	prog        *ssa.Program
	spkgs       map[string]*ssa.Package // by import path
	mainPkg     *ssa.Package            // spdxexp
	u           *Universe
	cs          *Contracts
	funcs       map[string]*ssa.Function // contract name -> function
	allFns      []*ssa.Function          // every function of the verified packages (incl. closures, generic instances)
	modsets     map[*ssa.Function]map[string]string
	callers     map[*ssa.Function][]*ssa.Function
	verified    map[string]bool // import paths of packages under verification
	regexLits   []string
	split       bool
	oblRe       *regexp.Regexp
	reach       map[*ssa.Function]bool
	modsetsDone bool
}

const (
	pkgSpdxexp = "github.com/github/go-spdx/v2/spdxexp"
	pkgTables  = "github.com/github/go-spdx/v2/spdxexp/spdxlicenses"
	pkgCmd     = "github.com/github/go-spdx/v2/cmd"
)

func loadProgram(dir string) (*Program, error) {
	cfg := &packages.Config{Mode: packages.LoadSyntax, Dir: dir, BuildFlags: []string{"-tags=verif"},
		Env: append(os.Environ(), "GOFLAGS=-mod=mod", "GOPROXY=off", "GOSUMDB=off", "GOTOOLCHAIN=local")}
	pkgs, err := packages.Load(cfg, "./...")
	if err != nil {
		return nil, err
	}
	var errs []string
	packages.Visit(pkgs, nil, func(p *packages.Package) {
		for _, e := range p.Errors {
			errs = append(errs, e.Error())
		}
	})
	if len(errs) > 0 {
		return nil, fmt.Errorf("package load errors:\n%s", strings.Join(errs, "\n"))
	}
	prog, spkgs := ssautil.Packages(pkgs, ssa.GlobalDebug|ssa.InstantiateGenerics)
	prog.Build()
	p := &Program{dir: dir, pkgs: pkgs, prog: prog, spkgs: map[string]*ssa.Package{}, u: newUniverse(), cs: newContracts(),
		funcs: map[string]*ssa.Function{}, modsets: map[*ssa.Function]map[string]string{}, callers: map[*ssa.Function][]*ssa.Function{},
		verified: map[string]bool{pkgSpdxexp: true, pkgTables: true}}
	for i, sp := range spkgs {
		if sp == nil {
			continue
		}
		p.spkgs[pkgs[i].PkgPath] = sp
		p.fset = pkgs[i].Fset
	}
	p.mainPkg = p.spkgs[pkgSpdxexp]
	if p.mainPkg == nil {
		return nil, fmt.Errorf("package %s not found under %s", pkgSpdxexp, dir)
	}
	// contracts
	for _, pk := range pkgs {
		if !p.verified[pk.PkgPath] {
			continue
		}
		for _, f := range pk.Syntax {
			if err := p.cs.loadFile(pk.Fset, f); err != nil {
				return nil, err
			}
		}
	}
	// functions
	all := ssautil.AllFunctions(prog)
	for fn := range all {
		if fn.Pkg == nil && fn.Origin() != nil && fn.Origin().Pkg != nil {
			// generic instance
			if p.verified[fn.Origin().Pkg.Pkg.Path()] && len(fn.Blocks) > 0 {
				p.allFns = append(p.allFns, fn)
			}
			continue
		}
		pk := fnPkg(fn)
		if pk == nil || !p.verified[pk.Pkg.Path()] {
			continue
		}
		if len(fn.Blocks) == 0 || fn.Synthetic != "" && !strings.Contains(fn.Synthetic, "instance") {
			continue
		}
		if fn.Name() == "init" {
			continue
		}
		if fn.TypeParams().Len() > 0 && len(fn.TypeArgs()) == 0 {
			continue // uninstantiated generic
		}
		p.allFns = append(p.allFns, fn)
	}
	sort.Slice(p.allFns, func(i, j int) bool { return p.fnName(p.allFns[i]) < p.fnName(p.allFns[j]) })
	for _, fn := range p.allFns {
		p.funcs[p.fnName(fn)] = fn
	}
	// every struct type of the verified packages is registered up front
	for path := range p.verified {
		sp := p.spkgs[path]
		if sp == nil {
			continue
		}
		names := sp.Pkg.Scope().Names()
		for _, n := range names {
			if tn, ok := sp.Pkg.Scope().Lookup(n).(*types.TypeName); ok {
				if _, ok := tn.Type().Underlying().(*types.Struct); ok {
					if _, err := p.u.tyOf(tn.Type()); err != nil {
						return nil, fmt.Errorf("type %s: %v", n, err)
					}
				}
			}
		}
	}
	// string fields whose address is taken as a value
	for _, fn := range p.allFns {
		for _, b := range fn.Blocks {
			for _, ins := range b.Instrs {
				fa, ok := ins.(*ssa.FieldAddr)
				if !ok {
					continue
				}
				pt, ok := fa.Type().(*types.Pointer)
				if !ok {
					continue
				}
				if bt, ok := pt.Elem().Underlying().(*types.Basic); !ok || bt.Info()&types.IsString == 0 {
					continue
				}
				escapes := false
				for _, r := range *fa.Referrers() {
					switch rr := r.(type) {
					case *ssa.UnOp:
					case *ssa.Store:
						if rr.Val == fa {
							escapes = true
						}
					case *ssa.DebugRef:
					default:
						escapes = true
					}
				}
				if escapes {
					st := fa.X.Type().Underlying().(*types.Pointer).Elem()
					sty, err := p.u.tyOf(st)
					if err != nil {
						return nil, err
					}
					fname := st.Underlying().(*types.Struct).Field(fa.Field).Name()
					p.u.strFieldID(sty.Name, fname)
				}
			}
		}
	}
	// call graph (static, inside the verified packages)
	for _, fn := range p.allFns {
		seen := map[*ssa.Function]bool{}
		for _, c := range p.staticCallees(fn) {
			if !seen[c] {
				seen[c] = true
				p.callers[c] = append(p.callers[c], fn)
			}
		}
	}
	// may-write sets (fixpoint over the call graph), computed eagerly: loop and call havoc depend on them
	if len(p.allFns) > 0 {
		p.modset(p.allFns[0])
	}
	// every contract must name an existing function: a renamed function is a load error, not a vacuous clause
	for _, name := range p.cs.funcNames() {
		if _, ok := p.funcs[name]; !ok {
			if p.lookupGeneric(name) == nil {
				return nil, fmt.Errorf("%s:%d: contract for unknown function %q", p.cs.Funcs[name].File, p.cs.Funcs[name].Line, name)
			}
		}
	}
	return p, nil
}

func fnPkg(fn *ssa.Function) *ssa.Package {
	if fn.Pkg != nil {
		return fn.Pkg
	}
	if fn.Parent() != nil {
		return fnPkg(fn.Parent())
	}
	if fn.Origin() != nil {
		return fn.Origin().Pkg
	}
	return nil
}

func (p *Program) lookupGeneric(name string) *ssa.Function {
	for n, fn := range p.funcs {
		if i := strings.Index(n, "["); i > 0 && n[:i] == name {
			return fn
		}
	}
	return nil
}

// fnName is the name used in contract files and obligation names.
func (p *Program) fnName(fn *ssa.Function) string {
	pk := fnPkg(fn)
	if pk == nil {
		return fn.String()
	}
	if pk == p.mainPkg {
		return fn.RelString(pk.Pkg)
	}
	return pk.Pkg.Name() + "." + fn.RelString(pk.Pkg)
}

func (p *Program) contractOf(fn *ssa.Function) *FuncContract {
	n := p.fnName(fn)
	if c, ok := p.cs.Funcs[n]; ok {
		return c
	}
	if i := strings.Index(n, "["); i > 0 {
		if c, ok := p.cs.Funcs[n[:i]]; ok {
			return c
		}
	}
	return nil
}

func (p *Program) inVerified(fn *ssa.Function) bool {
	pk := fnPkg(fn)
	return pk != nil && p.verified[pk.Pkg.Path()] && len(fn.Blocks) > 0
}

func (p *Program) staticCallees(fn *ssa.Function) []*ssa.Function {
	var out []*ssa.Function
	for _, b := range fn.Blocks {
		for _, ins := range b.Instrs {
			switch x := ins.(type) {
			case ssa.CallInstruction:
				if c := x.Common().StaticCallee(); c != nil && p.inVerified(c) {
					out = append(out, c)
				}
			}
			if mc, ok := ins.(*ssa.MakeClosure); ok {
				if c, ok := mc.Fn.(*ssa.Function); ok {
					out = append(out, c)
				}
			}
		}
	}
	return out
}

func hasLoop(fn *ssa.Function) bool {
	for _, b := range fn.Blocks {
		for _, s := range b.Succs {
			if s.Dominates(b) {
				return true
			}
		}
	}
	return false
}

// isRecursive reports whether fn can reach itself through static calls.
func (p *Program) isRecursive(fn *ssa.Function) bool {
	seen := map[*ssa.Function]bool{}
	var walk func(f *ssa.Function) bool
	walk = func(f *ssa.Function) bool {
		for _, c := range p.staticCallees(f) {
			if c == fn {
				return true
			}
			if !seen[c] {
				seen[c] = true
				if walk(c) {
					return true
				}
			}
		}
		return false
	}
	return walk(fn)
}

// inlinable: no contract, loop-free, non-recursive, inside the verified packages.
func (p *Program) inlinable(fn *ssa.Function) bool {
	if !p.inVerified(fn) {
		return false
	}
	if c := p.contractOf(fn); c != nil {
		return false
	}
	if hasLoop(fn) || p.isRecursive(fn) {
		return false
	}
	return true
}

func (p *Program) pos(pos token.Pos) string {
	if !pos.IsValid() {
		return ""
	}
	ps := p.fset.Position(pos)
	f := ps.Filename
	if strings.HasPrefix(f, p.dir) {
		f = strings.TrimPrefix(strings.TrimPrefix(f, p.dir), "/")
	}
	return fmt.Sprintf("%s:%d", f, ps.Line)
}

// reaches: g is reachable from f through one or more static calls.
func (p *Program) reaches(f, g *ssa.Function) bool {
	seen := map[*ssa.Function]bool{}
	var walk func(h *ssa.Function) bool
	walk = func(h *ssa.Function) bool {
		for _, c := range p.staticCallees(h) {
			if c == g {
				return true
			}
			if !seen[c] {
				seen[c] = true
				if walk(c) {
					return true
				}
			}
		}
		return false
	}
	return walk(f)
}

// sameSCC: a call from f to g may lead back to f (both lie on one cycle of the static call graph; inlined functions are
// nodes of that graph, so a cycle through an inlined callee is seen).
func (p *Program) sameSCC(f, g *ssa.Function) bool {
	if f == nil || g == nil {
		return false
	}
	if f == g {
		return true
	}
	return p.reaches(g, f)
}
