package main

// Calls (builtins, external assumed contracts, modular calls, inlining),
// returns, and the may-write sets used for havoc.

import (
	"fmt"
	"go/token"
	"go/types"
	"regexp"
	"sort"
	"strings"

	"golang.org/x/tools/go/ssa"
)

const maxInlineDepth = 8

func (fr *Frame) resultNames() []string {
	res := fr.fn.Signature.Results()
	var out []string
	for i := 0; i < res.Len(); i++ {
		out = append(out, res.At(i).Name())
	}
	return out
}

func (fr *Frame) encodeReturn(x *ssa.Return) {
	vc := fr.vc()
	var vals []TV
	res := fr.fn.Signature.Results()
	for i, r := range x.Results {
		ty := fr.tyOf(res.At(i).Type())
		v := fr.val(r)
		vals = append(vals, TV{fr.coerce(v, ty), ty})
	}
	fr.defineGhosts()
	if !fr.top {
		fr.rets = append(fr.rets, &retRec{reach: fr.reach, vals: vals, st: fr.st.clone()})
		return
	}
	k := fr.ord("return")
	if fr.contract != nil {
		vars := map[string]TV{}
		for n, v := range fr.specVars {
			vars[n] = v
		}
		if _, clash := fr.specVars["result"]; len(vals) == 1 && !clash {
			vars["result"] = vals[0]
		}
		for i, v := range vals {
			vars[fmt.Sprintf("result%d", i)] = v
			if n := res.At(i).Name(); n != "" && n != "_" {
				vars[n] = v
			}
		}
		env := &SpecEnv{vc: vc, vars: vars, st: fr.st, old: fr.funcEntry, autoDeref: fr.autoDeref}
		for i, c := range fr.contract.Ensures {
			tv, err := env.tr(c.E)
			if err != nil {
				vc.addErr("%s:%d: ensures: %v", c.File, c.Line, err)
				continue
			}
			if tv.Ty.K != KBool {
				vc.addErr("%s:%d: ensures is not boolean", c.File, c.Line)
				continue
			}
			lbl := c.Label
			if lbl == "" {
				lbl = fmt.Sprint(i)
			}
			fr.oblige("ensures", fmt.Sprintf("post:%s@ret%d", lbl, k), c.Props, tv.T, c.Src, x.Pos(), "")
		}
	}
	mod := fr.e.p.modset(fr.fn)
	if fr.e.typeInvTouches(mod) {
		fr.oblige("typeinv", fmt.Sprintf("typeinv@ret%d", k), []string{"*"}, fr.typeInvs(fr.st), "type invariants", x.Pos(), "")
	}
	// vacuity canary: this must NOT be provable
	vc.oblige(&Oblig{Name: fr.label + fmt.Sprintf("/canary@ret%d", k), Kind: "canary", Guard: fr.reach, Goal: "false", Where: fr.e.p.pos(x.Pos())})
}

func (fr *Frame) encodeCall(x *ssa.Call) {
	vc := fr.vc()
	cc := x.Common()
	if cc.IsInvoke() {
		vc.addErr("%s: interface method call %s is outside the subset", fr.label, cc.Method.Name())
		return
	}
	switch callee := cc.Value.(type) {
	case *ssa.Builtin:
		fr.encodeBuiltin(x, callee)
	case *ssa.Function:
		if !fr.e.p.inVerified(callee) {
			fr.encodeExternal(x, callee)
			return
		}
		name := fr.e.p.fnName(callee)
		fr.e.res.callees[name] = true
		ord := fr.callOrd[name]
		fr.callOrd[name]++
		if fr.e.p.inlinable(callee) && fr.depth < maxInlineDepth {
			fr.inlineCall(x, callee, ord)
		} else {
			fr.modularCall(x, callee, ord)
		}
	default:
		vc.addErr("%s: dynamic call through %T is outside the subset", fr.label, cc.Value)
	}
}

func (fr *Frame) setResult(x *ssa.Call, vals []TV) {
	switch len(vals) {
	case 0:
	case 1:
		fr.vals[x] = vals[0]
	default:
		fr.tuples[x] = vals
	}
}

func (fr *Frame) encodeBuiltin(x *ssa.Call, b *ssa.Builtin) {
	vc := fr.vc()
	args := x.Common().Args
	switch b.Name() {
	case "len":
		v := fr.val(args[0])
		switch v.Ty.K {
		case KString:
			fr.define(x, "(str.len "+v.T+")", tyInt)
		case KSlice:
			fr.define(x, "(s-len "+v.T+")", tyInt)
		default:
			vc.addErr("%s: len of %s", fr.label, v.Ty)
		}
	case "cap":
		v := fr.val(args[0])
		fr.define(x, "(s-cap "+v.T+")", tyInt)
	case "append":
		ord := fr.callOrd["append"]
		fr.callOrd["append"]++
		fr.callAssertsPhase(x, "append", ord, false)
		fr.encodeAppend(x, args[0], args[1])
		fr.callAssertsPhase(x, "append", ord, true)
	default:
		vc.addErr("%s: builtin %s is outside the subset", fr.label, b.Name())
	}
}

func (fr *Frame) encodeAppend(x *ssa.Call, sv, tv ssa.Value) {
	vc := fr.vc()
	ty := fr.tyOf(x.Type())
	if ty.K != KSlice {
		vc.addErr("%s: append result %s", fr.label, ty)
		return
	}
	E := ty.Elem
	fr.regElem(E)
	s := fr.val(sv)
	s.T = fr.coerce(s, ty)
	t := fr.val(tv)
	t.T = fr.coerce(t, ty)
	if t.Ty.K == KString {
		vc.addErr("%s: append([]byte, string...) is outside the subset", fr.label)
		return
	}
	srt := elemMemSort(E)
	M := fr.getMem(elemMem(E), srt)
	slen, scap, sarr := "(s-len "+s.T+")", "(s-cap "+s.T+")", "(s-arr "+s.T+")"
	n := "(s-len " + t.T + ")"
	constN := int64(-1)
	if sl, ok := tv.(*ssa.Slice); ok && sl.Low == nil && sl.High == nil {
		if at := fr.tyOf(sl.X.Type()); at.K == KArrPtr && at.N <= 8 {
			constN = at.N
			n = fmt.Sprint(constN)
		}
	}
	if c, ok := tv.(*ssa.Const); ok && c.Value == nil {
		constN = 0
		n = "0"
	}
	newlen := vc.fresh(fr.prefix+x.Name()+"_len", "Int")
	vc.assume(eq(newlen, "(+ "+slen+" "+n+")"))
	inplace := vc.fresh(fr.prefix+x.Name()+"_inplace", "Bool")
	vc.assume(eq(inplace, "(<= "+newlen+" "+scap+")"))
	sArr := sel(M, sarr)
	tArr := sel(M, "(s-arr "+t.T+")")
	asort := arraySort("Int", E.Sort())
	// frame: an in-place append writes into the existing backing array
	if constN != 0 {
		fr.frameOblige("frame-append", implies(and(inplace, "(< 0 "+n+")"), fr.writableArr(E, sarr)),
			"append within capacity writes the existing backing array: it must be fresh or named in modifies", x.Pos())
	}
	a2id := fr.bump(ctrArr(E))
	var A1 string
	A2 := vc.fresh(fr.prefix+x.Name()+"_newarr", asort)
	k := fmt.Sprintf("k$%d", vc.nextBound())
	if constN >= 0 {
		chain := sArr
		for j := int64(0); j < constN; j++ {
			idx := "(+ " + slen + " " + fmt.Sprint(j) + ")"
			chain = store(chain, idx, sel(tArr, fmt.Sprint(j)))
			vc.assume(eq(sel(A2, idx), sel(tArr, fmt.Sprint(j))))
		}
		A1 = vc.fresh(fr.prefix+x.Name()+"_inarr", asort)
		vc.assume(eq(A1, chain))
		// redundant with the array theory, but it puts the read-back terms of the untouched prefix into the term graph
		vc.assume(fmt.Sprintf("(forall ((%s Int)) (! (=> (and (<= 0 %s) (< %s %s)) (= %s %s)) :pattern (%s) :pattern (%s)))",
			k, k, k, slen, sel(A1, k), sel(sArr, k), sel(A1, k), sel(sArr, k)))
	} else {
		A1 = vc.fresh(fr.prefix+x.Name()+"_inarr", asort)
		vc.assume(fmt.Sprintf("(forall ((%s Int)) (! (= %s (ite (and (<= %s %s) (< %s %s)) %s %s)) :pattern (%s)))",
			k, sel(A1, k), slen, k, k, newlen, sel(tArr, "(- "+k+" "+slen+")"), sel(sArr, k), sel(A1, k)))
		vc.assume(fmt.Sprintf("(forall ((%s Int)) (! (=> (and (<= 0 %s) (< %s %s)) (= %s %s)) :pattern (%s)))",
			k, k, k, slen, sel(A1, k), sel(sArr, k), sel(sArr, k)))
		vc.assume(fmt.Sprintf("(forall ((%s Int)) (! (=> (and (<= %s %s) (< %s %s)) (= %s %s)) :pattern (%s)))",
			k, slen, k, k, newlen, sel(A2, k), sel(tArr, "(- "+k+" "+slen+")"), sel(A2, k)))
		// the same facts, triggered from the source side (needed to show that every source element occurs in the result)
		vc.assume(fmt.Sprintf("(forall ((%s Int)) (! (=> (and (<= 0 %s) (< %s %s)) (= %s %s)) :pattern (%s)))",
			k, k, k, n, sel(A2, "(+ "+slen+" "+k+")"), sel(tArr, k), sel(tArr, k)))
		vc.assume(fmt.Sprintf("(forall ((%s Int)) (! (=> (and (<= 0 %s) (< %s %s)) (= %s %s)) :pattern (%s)))",
			k, k, k, n, sel(A1, "(+ "+slen+" "+k+")"), sel(tArr, k), sel(tArr, k)))
	}
	vc.assume(fmt.Sprintf("(forall ((%s Int)) (! (=> (and (<= 0 %s) (< %s %s)) (= %s %s)) :pattern (%s) :pattern (%s)))",
		k, k, k, slen, sel(A2, k), sel(sArr, k), sel(A2, k), sel(sArr, k)))
	capN := vc.fresh(fr.prefix+x.Name()+"_cap", "Int")
	vc.assume("(<= " + newlen + " " + capN + ")")
	res := "(ite " + inplace + " (mk-slice " + sarr + " " + newlen + " " + scap + ") (mk-slice " + a2id + " " + newlen + " " + capN + "))"
	newM := "(ite " + inplace + " " + store(M, sarr, A1) + " " + store(M, a2id, A2) + ")"
	if constN == 0 {
		res = s.T
		newM = M
	}
	fr.setMem(elemMem(E), srt, newM)
	rv := fr.define(x, res, ty)
	// read-back terms of the appended cells (witnesses for existential facts about them)
	if constN > 0 {
		cur := fr.getMem(elemMem(E), srt)
		for j := int64(0); j < constN; j++ {
			vc.seed(sel(sel(cur, "(s-arr "+rv.T+")"), "(+ "+slen+" "+fmt.Sprint(j)+")"), E.Sort())
		}
	}
}

// ---- external functions: assumed contracts ----

func (fr *Frame) encodeExternal(x *ssa.Call, callee *ssa.Function) {
	vc := fr.vc()
	name := callee.String()
	args := x.Common().Args
	fr.e.res.externals[name] = true
	ord := fr.callOrd[name]
	fr.callOrd[name]++
	fr.callAsserts(x, name, ord)
	switch name {
	case "errors.New":
		vc.note("errors.New returns a non-nil error carrying its argument; no other effect")
		fr.define(x, "(mkerr "+fr.val(args[0]).T+")", tyErr)
	case "strings.HasPrefix":
		vc.note("strings.HasPrefix = SMT str.prefixof")
		fr.define(x, "(str.prefixof "+fr.val(args[1]).T+" "+fr.val(args[0]).T+")", tyBool)
	case "strings.HasSuffix":
		vc.note("strings.HasSuffix = SMT str.suffixof")
		fr.define(x, "(str.suffixof "+fr.val(args[1]).T+" "+fr.val(args[0]).T+")", tyBool)
	case "strings.EqualFold":
		vc.note("strings.EqualFold: uninterpreted equivalence relation containing equality (axioms in the contract file)")
		fr.define(x, "(EqualFold "+fr.val(args[0]).T+" "+fr.val(args[1]).T+")", tyBool)
	case "strings.ToLower":
		vc.note("strings.ToLower: uninterpreted, with ground instances computed by the real function for the string literals of the function")
		fr.define(x, "(ToLower "+fr.val(args[0]).T+")", tyString)
	case "fmt.Sprintf":
		vc.note("fmt.Sprintf returns some string, does not panic and has no other effect")
		fr.declareVal(x, tyString)
	case "regexp.Compile":
		vc.note("regexp.Compile succeeds (non-nil *Regexp) on the pattern literals that the real package compiles at generation time")
		p := fr.val(args[0])
		var alts []string
		for _, lit := range fr.e.p.regexLiterals() {
			alts = append(alts, eq(p.T, smtString(lit)))
		}
		okc := or(alts...)
		rx := vc.fresh(fr.prefix+x.Name()+"_re", "String")
		vc.assume(eq(rx, p.T))
		// (*Regexp, error): non-nil iff the pattern is a known literal
		nn := vc.fresh(fr.prefix+x.Name()+"_ok", "Bool")
		vc.assume(eq(nn, okc))
		fr.tuples[x] = []TV{{rx, tyRegexp}, {"(ite " + nn + " noerr (mkerr \"regexp\"))", tyErr}}
		fr.e.regexOK[rx] = nn
	case "(*regexp.Regexp).FindStringIndex":
		fr.encodeFindStringIndex(x)
	case "sort.Slice":
		fr.encodeSortSlice(x)
	default:
		if pureExternal(callee) {
			// side-effect free, total library function: the result is an arbitrary value of its type
			vc.note("external " + name + ": assumed pure and total; its result is over-approximated by an arbitrary value")
			t := fr.tyOf(x.Type())
			if t.K == KTuple {
				var vs []TV
				for i, et := range t.Tuple {
					vs = append(vs, TV{vc.fresh(fmt.Sprintf("%s%s_r%d", fr.prefix, x.Name(), i), et.Sort()), et})
				}
				fr.tuples[x] = vs
			} else if t.K == KSlice || t.K == KRef || t.K == KMap || t.K == KPtr {
				vc.addErr("%s: external function %s returns a reference type (outside subset)", fr.label, name)
				fr.declareVal(x, t)
			} else {
				fr.declareVal(x, t)
			}
			return
		}
		vc.addErr("%s: call of external function %s has no assumed contract (outside subset)", fr.label, name)
		if t := fr.tyOf(x.Type()); t.K != KTuple {
			fr.declareVal(x, t)
		}
	}
}

// pureExternal: library functions that are total (never panic), effect-free and return value types.
func pureExternal(c *ssa.Function) bool {
	if c.Pkg == nil {
		return false
	}
	switch c.Pkg.Pkg.Path() {
	case "strings":
		switch c.Name() {
		case "Repeat", "NewReplacer", "NewReader", "Map", "Fields", "Split", "SplitN", "FieldsFunc", "Builder":
			return false
		}
		return c.Signature.Recv() == nil
	case "unicode", "unicode/utf8":
		return c.Signature.Recv() == nil
	case "strconv":
		switch c.Name() {
		case "Itoa", "Quote", "FormatInt", "FormatBool":
			return true
		}
	}
	return false
}

var classRe = regexp.MustCompile(`^\[([^\]]+)\]([*+])$`)

// regexLiterals: the string constants of the verified packages that are used
// as regexp patterns and that the real regexp package compiles.
func (p *Program) regexLiterals() []string {
	if p.regexLits != nil {
		return p.regexLits
	}
	seen := map[string]bool{}
	for _, fn := range p.allFns {
		for _, b := range fn.Blocks {
			for _, ins := range b.Instrs {
				for _, op := range ins.Operands(nil) {
					if c, ok := (*op).(*ssa.Const); ok && c.Value != nil {
						if bt, ok := c.Type().Underlying().(*types.Basic); ok && bt.Info()&types.IsString != 0 {
							s := constantString(c)
							if classRe.MatchString(s) {
								if _, err := regexp.Compile(s); err == nil {
									seen[s] = true
								}
							}
						}
					}
				}
			}
		}
	}
	p.regexLits = []string{}
	for s := range seen {
		p.regexLits = append(p.regexLits, s)
	}
	sort.Strings(p.regexLits)
	return p.regexLits
}

// smtClass turns the inside of a character class (no negation, no escapes) into an SMT regex.
func smtClass(body string) (string, error) {
	var parts []string
	rs := []rune(body)
	for i := 0; i < len(rs); i++ {
		if rs[i] == '\\' || rs[i] == '^' {
			return "", fmt.Errorf("unsupported class %q", body)
		}
		if i+2 < len(rs) && rs[i+1] == '-' {
			parts = append(parts, fmt.Sprintf("(re.range %s %s)", smtString(string(rs[i])), smtString(string(rs[i+2]))))
			i += 2
			continue
		}
		parts = append(parts, "(str.to_re "+smtString(string(rs[i]))+")")
	}
	if len(parts) == 1 {
		return parts[0], nil
	}
	return "(re.union " + strings.Join(parts, " ") + ")", nil
}

func (fr *Frame) encodeFindStringIndex(x *ssa.Call) {
	vc := fr.vc()
	args := x.Common().Args
	rx := fr.val(args[0])
	s := fr.val(args[1])
	// nil receiver dereference
	if okv, ok := fr.e.regexOK[rx.T]; ok {
		fr.oblige("nil-deref", fmt.Sprintf("nil-deref#%d", fr.ord("nil-deref")), safetyProps, okv,
			"regexp pattern must be one that compiles (otherwise the *Regexp is nil)", x.Pos(), "")
		fr.assumeHere(okv, "re")
	} else {
		vc.addErr("%s: FindStringIndex on a Regexp of unknown origin", fr.label)
	}
	vc.note("(*Regexp).FindStringIndex on the class patterns [c]* / [c]+ returns the leftmost-longest match (assumed; checked against the real package on all strings of <= 5 representative characters by the bounded part of C05)")
	ity := tyInt
	fr.regElem(ity)
	a := fr.bump(ctrArr(ity))
	M := fr.getMem(elemMem(ity), elemMemSort(ity))
	arr := vc.fresh(fr.prefix+x.Name()+"_loc", arraySort("Int", "Int"))
	fr.setMem(elemMem(ity), elemMemSort(ity), store(M, a, arr))
	res := fr.declareVal(x, &Ty{K: KSlice, Elem: ity})
	i0, i1 := sel(arr, "0"), sel(arr, "1")
	isNil := eq(res.T, "(mk-slice 0 0 0)")
	nonNil := eq(res.T, "(mk-slice "+a+" 2 2)")
	var sems, extras []string
	for _, lit := range fr.e.p.regexLiterals() {
		m := classRe.FindStringSubmatch(lit)
		cls, err := smtClass(m[1])
		if err != nil {
			vc.addErr("%s: %v", fr.label, err)
			continue
		}
		L := "(str.len " + s.T + ")"
		endOK := or(eq(i1, L), not("(str.in_re (str.at "+s.T+" "+i1+") "+cls+")"))
		var sem string
		if m[2] == "*" {
			// always matches at 0, possibly empty
			sem = and(nonNil, eq(i0, "0"), "(<= 0 "+i1+")", "(<= "+i1+" "+L+")",
				"(str.in_re (str.substr "+s.T+" 0 "+i1+") (re.* "+cls+"))", endOK)
		} else {
			none := "(str.in_re " + s.T + " (re.* (re.diff re.allchar " + cls + ")))"
			sem = "(ite " + none + " " + isNil + " " + and(nonNil, "(<= 0 "+i0+")", "(< "+i0+" "+i1+")", "(<= "+i1+" "+L+")",
				"(str.in_re (str.substr "+s.T+" 0 "+i0+") (re.* (re.diff re.allchar "+cls+")))",
				"(str.in_re (str.substr "+s.T+" "+i0+" (- "+i1+" "+i0+")) (re.+ "+cls+"))",
				// (the same fact for a match at 0, spelled with the term the code builds: s[0:i1])
				implies(eq(i0, "0"), "(str.in_re (str.substr "+s.T+" 0 "+i1+") (re.+ "+cls+"))"), endOK) + ")"
		}
		// the match as a function of the string: classRun(s) is THE maximal prefix of class characters (the spec
		// function contracts use; determinism of the match is part of the assumed contract of regexp)
		// the first and the last character of a non-empty match are class characters (consequences of the above that
		// the string solvers do not derive quickly by themselves)
		sems = append(sems, implies(eq(rx.T, smtString(lit)), sem))
		// the same match in terms of the spec function runLen (the reference lexer of C05 is written with it): on
		// "[c]*" the match is [0, runLen(s)]; on "[c]+" the leftmost match starts at 0 iff runLen(s) > 0 and then ends
		// at runLen(s).  Visible to the obligations of the lexical properties only.
		rl := runLenApp(vc, m[1], s.T)
		var ext string
		if m[2] == "*" {
			ext = eq(i1, rl)
		} else {
			ext = and(eq(and(nonNil, eq(i0, "0")), "(> "+rl+" 0)"), implies(and(nonNil, eq(i0, "0")), eq(i1, rl)))
		}
		extras = append(extras, implies(eq(rx.T, smtString(lit)), ext))
	}
	// reading the fresh result array back (a consequence of M' = store(M, a, arr), spelled out because the string back
	// end does not combine nested-array reasoning with string reasoning in reasonable time)
	M2 := fr.getMem(elemMem(ity), elemMemSort(ity))
	sems = append(sems, implies(eq("(s-arr "+res.T+")", a), and(eq(sel(sel(M2, "(s-arr "+res.T+")"), "0"), i0), eq(sel(sel(M2, "(s-arr "+res.T+")"), "1"), i1))))
	fr.assumeHere(and(sems...), "fsi")
	vc.assumeScoped(implies(fr.reach, and(extras...)), []string{"C05", "C08", "C09"})
}

// classRunFn declares (once per VC) the spec function "maximal prefix of characters of a class" with its
// characterisation, and returns its SMT name.
func classRunFn(vc *VC, classBody string) string {
	name := "classRun_" + classKey(classBody)
	if vc.declSet[name] {
		return name
	}
	cls, err := smtClass(classBody)
	if err != nil {
		vc.addErr("%v", err)
		return name
	}
	vc.declareFun(name, []string{"String"}, "String")
	x := fmt.Sprintf("x$%d", vc.nextBound())
	r := "(" + name + " " + x + ")"
	vc.classAxioms = append(vc.classAxioms, fmt.Sprintf("(forall ((%s String)) (! (and (str.prefixof %s %s) (str.in_re %s (re.* %s)) (or (= (str.len %s) (str.len %s)) (not (str.in_re (str.at %s (str.len %s)) %s)))) :pattern (%s)))",
		x, r, x, r, cls, r, x, x, r, cls, r))
	return name
}

// classRunApp builds the application classRun_c(arg) and, for a ground argument, records the characterisation of
// that instance (the quantified axiom does not survive the quantifier-free weakening used for string obligations).
func classRunApp(vc *VC, classBody, arg string, instances bool) string {
	name := classRunFn(vc, classBody)
	r := "(" + name + " " + arg + ")"
	if strings.Contains(arg, "$") {
		return r
	}
	if vc.classInst == nil {
		vc.classInst = map[string]bool{}
	}
	if instances && !vc.classInst[r] {
		vc.classInst[r] = true
		cls, err := smtClass(classBody)
		if err == nil {
			vc.classAxioms = append(vc.classAxioms, fmt.Sprintf("(and (str.prefixof %s %s) (str.in_re %s (re.* %s)) (or (= (str.len %s) (str.len %s)) (not (str.in_re (str.at %s (str.len %s)) %s))))",
				r, arg, r, cls, r, arg, arg, r, cls))
		}
	}
	return r
}

// runLenApp: runLen_c(arg), the length of the maximal prefix of class characters, an uninterpreted function
// characterised by: 0 <= r <= len(s), s[0:r] consists of class characters, and s[r] (if any) is not one.  These three
// facts determine r uniquely, so the axiom is a definition.  Ground instances of the bounds are recorded for the
// quantifier-free weakening.
func runLenApp(vc *VC, classBody, arg string) string {
	name := "runLen_" + classKey(classBody)
	cls, err := smtClass(classBody)
	if err != nil {
		vc.addErr("%v", err)
		return "0"
	}
	if !vc.declSet[name] {
		vc.declareFun(name, []string{"String"}, "Int")
		x := fmt.Sprintf("x$%d", vc.nextBound())
		r := "(" + name + " " + x + ")"
		vc.classAxioms = append(vc.classAxioms, fmt.Sprintf("(forall ((%s String)) (! (and (<= 0 %s) (<= %s (str.len %s)) (str.in_re (str.substr %s 0 %s) (re.* %s)) (or (= %s (str.len %s)) (not (str.in_re (str.at %s %s) %s)))) :pattern (%s)))",
			x, r, r, x, x, r, cls, r, x, x, r, cls, r))
	}
	r := "(" + name + " " + arg + ")"
	if strings.Contains(arg, "$") {
		return r
	}
	if vc.classInst == nil {
		vc.classInst = map[string]bool{}
	}
	if !vc.classInst[r] {
		vc.classInst[r] = true
		vc.classAxioms = append(vc.classAxioms, fmt.Sprintf("(and (<= 0 %s) (<= %s (str.len %s)))", r, r, arg))
	}
	return r
}

func classKey(body string) string {
	switch body {
	case " ":
		return "space"
	case "A-Za-z0-9-.":
		return "idch"
	}
	return sanitize(fmt.Sprintf("%x", body))
}

func (fr *Frame) encodeSortSlice(x *ssa.Call) {
	vc := fr.vc()
	args := x.Common().Args
	mi, ok := args[0].(*ssa.MakeInterface)
	if !ok {
		vc.addErr("%s: sort.Slice on a non-literal interface value", fr.label)
		return
	}
	s := fr.val(mi.X)
	if s.Ty.K != KSlice {
		vc.addErr("%s: sort.Slice on %s", fr.label, s.Ty)
		return
	}
	mc, ok := args[1].(*ssa.MakeClosure)
	if !ok {
		vc.addErr("%s: sort.Slice comparator is not a closure literal", fr.label)
		return
	}
	cfn := mc.Fn.(*ssa.Function)
	cname := fr.e.p.fnName(cfn)
	fr.e.res.callees[cname] = true
	vc.note("sort.Slice permutes the slice in place using swaps only, calls less(i,j) only with 0 <= i,j < len, and has no other effect (assumed; checked against the real package on every arrangement of up to 7 keys and on longer slices, with consistent and inconsistent comparators, by the bounded part of C07)")
	E := s.Ty.Elem
	fr.regElem(E)
	srt := elemMemSort(E)
	sarr := "(s-arr " + s.T + ")"
	slen := "(s-len " + s.T + ")"
	// frame: the array is written
	fr.frameOblige("frame-sort", implies("(< 1 "+slen+")", fr.writableArr(E, sarr)), "sort.Slice writes the backing array: it must be fresh or named in modifies", x.Pos())
	M := fr.getMem(elemMem(E), srt)
	M2 := vc.fresh(elemMem(E)+"@sort", srt)
	fr.st[elemMem(E)] = M2
	vc.nfresh++
	perm := fmt.Sprintf("perm!%d", vc.nfresh)
	pinv := fmt.Sprintf("pinv!%d", vc.nfresh)
	vc.declareFun(perm, []string{"Int"}, "Int")
	vc.declareFun(pinv, []string{"Int"}, "Int")
	a := fmt.Sprintf("a$%d", vc.nextBound())
	k := fmt.Sprintf("k$%d", vc.nextBound())
	var facts []string
	facts = append(facts, fmt.Sprintf("(forall ((%s Int)) (! (=> (not (= %s %s)) (= %s %s)) :pattern (%s)))", a, a, sarr, sel(M2, a), sel(M, a), sel(M2, a)))
	facts = append(facts, fmt.Sprintf("(forall ((%s Int)) (! (=> (and (<= 0 %s) (< %s %s)) (and (<= 0 (%s %s)) (< (%s %s) %s) (= %s %s))) :pattern (%s)))",
		k, k, k, slen, perm, k, perm, k, slen, sel(sel(M2, sarr), k), sel(sel(M, sarr), "("+perm+" "+k+")"), sel(sel(M2, sarr), k)))
	facts = append(facts, fmt.Sprintf("(forall ((%s Int)) (! (=> (and (<= 0 %s) (< %s %s)) (and (<= 0 (%s %s)) (< (%s %s) %s) (= %s %s))) :pattern (%s)))",
		k, k, k, slen, pinv, k, pinv, k, slen, sel(sel(M, sarr), k), sel(sel(M2, sarr), "("+pinv+" "+k+")"), sel(sel(M, sarr), k)))
	facts = append(facts, fmt.Sprintf("(forall ((%s Int)) (! (=> (or (< %s 0) (<= %s %s)) (= %s %s)) :pattern (%s)))",
		k, k, slen, k, sel(sel(M2, sarr), k), sel(sel(M, sarr), k), sel(sel(M2, sarr), k)))
	fr.assumeHere(and(facts...), "sort")
	// the comparator's precondition must hold for every pair of indices on every permutation
	cc := fr.e.p.contractOf(cfn)
	iv := vc.fresh("sort_i", "Int")
	jv := vc.fresh("sort_j", "Int")
	vars := map[string]TV{}
	auto := map[string]bool{}
	for idx, fv := range cfn.FreeVars {
		b := fr.val(mc.Bindings[idx])
		vars[fv.Name()] = b
		auto[fv.Name()] = true
	}
	if len(cfn.Params) == 2 {
		vars[cfn.Params[0].Name()] = TV{iv, tyInt}
		vars[cfn.Params[1].Name()] = TV{jv, tyInt}
	}
	save := fr.reach
	fr.assumeHere(and("(<= 0 "+iv+")", "(< "+iv+" "+slen+")", "(<= 0 "+jv+")", "(< "+jv+" "+slen+")"), "sortij")
	if cc != nil {
		env := &SpecEnv{vc: vc, vars: vars, st: fr.st, old: fr.topFrame.funcEntry, autoDeref: auto}
		for i, c := range cc.Requires {
			tv, err := env.tr(c.E)
			if err != nil {
				vc.addErr("%s:%d: requires (at sort.Slice): %v", c.File, c.Line, err)
				continue
			}
			lbl := c.Label
			if lbl == "" {
				lbl = fmt.Sprint(i)
			}
			fr.oblige("requires", fmt.Sprintf("pre:%s:%s", cname, lbl), c.Props, tv.T, c.Src, x.Pos(), "for every pair of indices and every permutation of the slice")
		}
	}
	fr.reach = save
	// closure effects: the comparator must not write anything (checked in its own VC: modifies nothing is the default)
	cmods := fr.e.p.modset(cfn)
	var cmodNames []string
	for m := range cmods {
		cmodNames = append(cmodNames, m)
	}
	sort.Strings(cmodNames) // deterministic script text
	for _, m := range cmodNames {
		srt := cmods[m]
		if strings.HasPrefix(m, "N") {
			old := fr.getMem(m, "Int")
			c := vc.fresh(m+"@sortc", "Int")
			vc.assume("(<= " + old + " " + c + ")")
			fr.st[m] = c
			continue
		}
		// fresh objects only: pre-existing unchanged
		fr.havocMem(m, srt, nil, nil)
	}
}

// ---- modular calls ----

func (fr *Frame) argTVs(x *ssa.Call, callee *ssa.Function) []TV {
	var out []TV
	for i, a := range x.Common().Args {
		v := fr.val(a)
		ty := fr.tyOf(callee.Params[i].Type())
		out = append(out, TV{fr.coerce(v, ty), ty})
	}
	return out
}

// callAsserts emits the contract's call-site assertions for the n-th call of callee.
func (fr *Frame) callAsserts(x *ssa.Call, callee string, ord int) {
	fr.callAssertsPhase(x, callee, ord, false)
}

// callAssertsPhase emits the assert / assume clauses attached to a call: "call" clauses before it, "after" clauses
// in the state after it (the call's result is named ret).  A proved assert is then assumed (it is a cut: a lemma for
// the obligations that follow).
func (fr *Frame) callAssertsPhase(x *ssa.Call, callee string, ord int, after bool) {
	if fr.contract == nil || !fr.top {
		return
	}
	for _, ca := range fr.contract.CallAsserts {
		if ca.Callee != callee || ca.Ordinal != ord || ca.After != after {
			continue
		}
		vars := map[string]TV{}
		for k, v := range fr.specVars {
			vars[k] = v
		}
		// loop variables of the enclosing loops (header values); inner loops take precedence
		var encl []*LoopInfo
		for _, li := range fr.loops {
			if li.blocks[x.Block()] && li.phiEnv != nil {
				encl = append(encl, li)
			}
		}
		sort.Slice(encl, func(i, j int) bool { return len(encl[i].blocks) > len(encl[j].blocks) })
		for _, li := range encl {
			for k, v := range li.phiEnv {
				if k == "$i" {
					continue
				}
				if _, isParam := fr.specVars[k]; isParam && !strings.HasPrefix(k, "$") {
					continue
				}
				vars[k] = v
			}
		}
		if after {
			if tv, ok := fr.vals[x]; ok {
				vars["ret"] = tv
			}
		}
		hdr := map[string]TV{}
		for _, li := range encl {
			for k, v := range li.phiEnv {
				hdr[k] = v
			}
		}
		for k, v := range fr.namesAt(x) {
			if _, isParam := fr.specVars[k]; isParam {
				continue
			}
			if _, isHdr := hdr[k]; isHdr {
				continue // a loop-carried variable keeps meaning its value at the loop head; the value at the call is "ret" or a local
			}
			vars[k] = v
		}
		// arguments: arg0.. (varargs are unpacked to the values before interface conversion)
		i := 0
		for _, a := range x.Common().Args {
			if sl, ok := a.(*ssa.Slice); ok {
				if vs := fr.varargValues(sl); vs != nil {
					for _, v := range vs {
						vars[fmt.Sprintf("arg%d", i)] = v
						i++
					}
					continue
				}
			}
			vars[fmt.Sprintf("arg%d", i)] = fr.val(a)
			i++
		}
		env := &SpecEnv{vc: fr.vc(), vars: vars, st: fr.st, old: fr.funcEntry, autoDeref: fr.autoDeref}
		tv, err := env.tr(ca.Clause.E)
		if err != nil {
			fr.vc().addErr("%s:%d: assert: %v", ca.Clause.File, ca.Clause.Line, err)
			continue
		}
		if ca.Assume {
			fr.vc().note("assumption at the call of " + callee + " in " + fr.label + ": " + ca.Clause.Src)
			fr.assumeHere(tv.T, "asm")
			continue
		}
		lbl := ca.Clause.Label
		if lbl != "" {
			lbl = ":" + lbl
		}
		phase := ""
		if after {
			phase = "after:"
		}
		fr.oblige("assert", fmt.Sprintf("assert:%s%s#%d%s", phase, callee, ord, lbl), ca.Clause.Props, tv.T, ca.Clause.Src, x.Pos(), "")
		if hasProp(ca.Clause.Props, "scoped") {
			fr.vc().assumeScoped(implies(fr.reach, tv.T), ca.Clause.Props)
		} else {
			fr.assumeHere(tv.T, "cut")
		}
	}
}

// varargValues recovers the values stored into a varargs array literal.
func (fr *Frame) varargValues(sl *ssa.Slice) []TV {
	al, ok := sl.X.(*ssa.Alloc)
	if !ok {
		return nil
	}
	at := fr.tyOf(al.Type())
	if at.K != KArrPtr {
		return nil
	}
	out := make([]TV, at.N)
	found := 0
	for _, r := range *al.Referrers() {
		ia, ok := r.(*ssa.IndexAddr)
		if !ok {
			continue
		}
		c, ok := ia.Index.(*ssa.Const)
		if !ok {
			return nil
		}
		for _, rr := range *ia.Referrers() {
			if st, ok := rr.(*ssa.Store); ok && st.Addr == ia {
				v := st.Val
				if mi, ok := v.(*ssa.MakeInterface); ok {
					out[c.Int64()] = fr.val(mi.X)
				} else {
					out[c.Int64()] = fr.val(v)
				}
				found++
			}
		}
	}
	if int64(found) != at.N {
		return nil
	}
	return out
}

// namesAt resolves source-level local names to the SSA values visible at an instruction: the last binding of the
// name (in instruction order) in the instruction's block, else in a dominating block.
func (fr *Frame) namesAt(at ssa.Instruction) map[string]TV {
	out := map[string]TV{}
	blk := at.Block()
	// instruction indices of the block
	idx := map[ssa.Instruction]int{}
	atIdx := -1
	for i, ins := range blk.Instrs {
		idx[ins] = i
		if ins == at {
			atIdx = i
		}
	}
	type cand struct {
		v     ssa.Value
		local bool
		ord   int
		pos   token.Pos
	}
	best := map[string]*cand{}
	for _, b := range fr.fn.Blocks {
		if b != blk && !b.Dominates(blk) {
			continue
		}
		for i, ins := range b.Instrs {
			d, ok := ins.(*ssa.DebugRef)
			if !ok || d.Object() == nil {
				continue
			}
			if b == blk && i > atIdx {
				continue
			}
			db := defBlock(d.X)
			if db != nil && db != blk && !db.Dominates(blk) {
				continue
			}
			c := &cand{v: d.X, local: b == blk, ord: i, pos: d.Pos()}
			name := d.Object().Name()
			o := best[name]
			if o == nil || (c.local && !o.local) || (c.local == o.local && c.local && c.ord > o.ord) || (!c.local && !o.local && c.pos > o.pos) {
				best[name] = c
			}
		}
	}
	for name, c := range best {
		if tv, ok := fr.vals[c.v]; ok {
			out[name] = tv
		} else if k, ok := c.v.(*ssa.Const); ok {
			out[name] = fr.val(k)
		}
	}
	return out
}

func (fr *Frame) modularCall(x *ssa.Call, callee *ssa.Function, ord int) {
	vc := fr.vc()
	p := fr.e.p
	name := p.fnName(callee)
	cc := p.contractOf(callee)
	args := fr.argTVs(x, callee)
	vars := map[string]TV{}
	for i, prm := range callee.Params {
		vars[prm.Name()] = args[i]
	}
	fr.defineGhosts()
	pre := fr.st
	tag := fmt.Sprintf("%s#%d", name, ord)
	fr.callAsserts(x, name, ord)
	var ghostBound, ghostNames []string
	if cc != nil {
		for _, gp := range cc.GhostParams {
			tv, ok := fr.topFrame.specVars[gp.Name]
			if !ok {
				// the caller gives no value: the callee's contract holds for every value of its ghost parameter, so its
				// postconditions are assumed universally quantified over it (and a precondition that mentions it must
				// hold for every value)
				ty, err := fr.e.p.u.tyOfTypeExpr(gp.Ty, fr.e.p.cs)
				if err != nil {
					vc.addErr("%s: ghostparam %s of %s: %v", fr.label, gp.Name, name, err)
					continue
				}
				bn := fmt.Sprintf("%s$%d", gp.Name, vc.nextBound())
				vars[gp.Name] = TV{bn, ty}
				ghostBound = append(ghostBound, "("+bn+" "+ty.Sort()+")")
				ghostNames = append(ghostNames, bn)
				continue
			}
			vars[gp.Name] = tv
		}
	}
	quantify := func(f string) string {
		if len(ghostBound) == 0 {
			return f
		}
		uses := false
		for _, n := range ghostNames {
			if strings.Contains(f, n) {
				uses = true
			}
		}
		if !uses {
			return f
		}
		return "(forall (" + strings.Join(ghostBound, " ") + ") " + f + ")"
	}
	// 1. preconditions
	if cc != nil {
		env := &SpecEnv{vc: vc, vars: vars, st: pre, old: pre}
		for i, c := range cc.Requires {
			tv, err := env.tr(c.E)
			if err != nil {
				vc.addErr("%s:%d: requires (at call in %s): %v", c.File, c.Line, fr.label, err)
				continue
			}
			lbl := c.Label
			if lbl == "" {
				lbl = fmt.Sprint(i)
			}
			fr.oblige("requires", fmt.Sprintf("pre:%s:%s", tag, lbl), c.Props, quantify(tv.T), c.Src, x.Pos(), "")
		}
		var pres []string
		for _, c := range cc.Requires {
			if tv, err := env.tr(c.E); err == nil {
				pres = append(pres, quantify(tv.T))
			}
		}
		fr.assumeHere(and(pres...), "pre")
	}
	if p.sameSCC(fr.topFrame.fn, callee) {
		fr.checkMeasure(x, callee, cc, vars, pre, tag)
	}
	mod := p.modset(callee)
	if fr.e.typeInvTouches(p.modset(fr.topFrame.fn)) && fr.topFrame.fn != nil {
		fr.oblige("typeinv", fmt.Sprintf("typeinv@call:%s", tag), []string{"*"}, fr.typeInvs(pre), "type invariants hold before the call", x.Pos(), "")
	}
	// 2. frame at the call site: what the callee may modify must be writable here
	var modF func(T, f, r string) string
	var modA func(ety *Ty, a string) string
	if cc != nil {
		cenv := &SpecEnv{vc: vc, vars: vars, st: pre, old: pre}
		modF = func(T, f, r string) string { return modifiableFieldIn(cc, cenv, T, f, r) }
		modA = func(ety *Ty, a string) string { return modifiableArrIn(vc, cc, cenv, pre, ety, a) }
		for _, m := range cc.Modifies {
			switch me := m.(type) {
			case *EField:
				tv, err := cenv.tr(me.X)
				if err != nil || tv.Ty.K != KRef {
					vc.addErr("%s: modifies entry %s: %v", name, m, err)
					continue
				}
				fr.frameOblige("frame-call", fr.writableObj(tv.Ty.Name, me.F, tv.T), fmt.Sprintf("callee %s modifies %s", name, m), x.Pos())
			case *ECall:
				if len(me.Args) != 1 {
					continue
				}
				tv, err := cenv.tr(me.Args[0])
				if err != nil || tv.Ty.K != KSlice {
					vc.addErr("%s: modifies entry %s: %v", name, m, err)
					continue
				}
				switch me.Fn {
				case "arr":
					fr.frameOblige("frame-call", or(eq("(s-arr "+tv.T+")", "0"), fr.writableArr(tv.Ty.Elem, "(s-arr "+tv.T+")")), fmt.Sprintf("callee %s modifies %s", name, m), x.Pos())
				case "arrs":
					i := fmt.Sprintf("i$%d", vc.nextBound())
					M := vc.mem(pre, elemMem(tv.Ty.Elem), elemMemSort(tv.Ty.Elem))
					inner := sel(sel(M, "(s-arr "+tv.T+")"), i)
					goal := fmt.Sprintf("(forall ((%s Int)) (! (=> (and (<= 0 %s) (< %s (s-len %s))) %s) :pattern (%s)))", i, i, i, tv.T,
						or(eq("(s-arr "+inner+")", "0"), fr.writableArr(tv.Ty.Elem.Elem, "(s-arr "+inner+")")), inner)
					fr.frameOblige("frame-call", goal, fmt.Sprintf("callee %s modifies %s", name, m), x.Pos())
				}
			}
		}
	}
	// 3. havoc
	post := pre.clone()
	fr.st = post
	var facts []string
	var mods []string
	for m := range mod {
		mods = append(mods, m)
	}
	sort.Strings(mods)
	for _, m := range mods {
		if strings.HasPrefix(m, "N") {
			old := vc.mem(pre, m, "Int")
			c := vc.fresh(m+"@"+tag, "Int")
			vc.sorts[m] = "Int"
			post[m] = c
			facts = append(facts, "(<= "+old+" "+c+")")
		}
	}
	for _, m := range mods {
		if strings.HasPrefix(m, "N") {
			continue
		}
		if strings.HasPrefix(m, "G.") {
			vc.sorts[m] = mod[m]
			post[m] = vc.fresh(m+"@"+tag, mod[m])
			continue
		}
		facts = append(facts, fr.havocMemFacts(m, mod[m], pre, post, tag, modF, modA))
	}
	// 4. results
	type scopedFact struct {
		f    string
		tags []string
	}
	var scoped []scopedFact
	var results []TV
	rs := callee.Signature.Results()
	rvars := map[string]TV{}
	for k, v := range vars {
		rvars[k] = v
	}
	for i := 0; i < rs.Len(); i++ {
		ty := fr.tyOf(rs.At(i).Type())
		c := vc.fresh(fmt.Sprintf("%s%s_r%d", fr.prefix, x.Name(), i), ty.Sort())
		tv := TV{c, ty}
		results = append(results, tv)
		facts = append(facts, fr.wfFacts(tv, post))
		rvars[fmt.Sprintf("result%d", i)] = tv
		if n := rs.At(i).Name(); n != "" && n != "_" {
			rvars[n] = tv
		}
	}
	if _, clash := vars["result"]; len(results) == 1 && !clash {
		rvars["result"] = results[0]
	}
	if cc != nil {
		env := &SpecEnv{vc: vc, vars: rvars, st: post, old: pre}
		for _, c := range append(append([]*Clause{}, cc.Ensures...), cc.Defines...) {
			tv, err := env.tr(c.E)
			if err != nil {
				vc.addErr("%s:%d: ensures (at call in %s): %v", c.File, c.Line, fr.label, err)
				continue
			}
			if hasProp(c.Props, "scoped") {
				scoped = append(scoped, scopedFact{quantify(tv.T), c.Props})
			} else {
				facts = append(facts, quantify(tv.T))
			}
			if c.Kind == "defines" {
				vc.note("definition by the code (assumed, justified by purity C13): " + name + ": " + c.Src)
			}
		}
	}
	if fr.e.typeInvTouches(mod) {
		facts = append(facts, fr.typeInvs(post))
	}
	fr.assumeHere(and(facts...), "call")
	for _, sf := range scoped {
		vc.assumeScoped(implies(fr.reach, sf.f), sf.tags)
	}
	fr.setResult(x, results)
	fr.callAssertsPhase(x, name, ord, true)
}

func modifiableFieldIn(cc *FuncContract, env *SpecEnv, T, f, r string) string {
	var alts []string
	for _, m := range cc.Modifies {
		fe, ok := m.(*EField)
		if !ok || fe.F != f {
			continue
		}
		tv, err := env.tr(fe.X)
		if err != nil || tv.Ty.K != KRef || tv.Ty.Name != T {
			continue
		}
		alts = append(alts, eq(r, tv.T))
	}
	return or(alts...)
}

func modifiableArrIn(vc *VC, cc *FuncContract, env *SpecEnv, st State, ety *Ty, a string) string {
	var alts []string
	for _, m := range cc.Modifies {
		c, ok := m.(*ECall)
		if !ok || len(c.Args) != 1 {
			continue
		}
		tv, err := env.tr(c.Args[0])
		if err != nil {
			continue
		}
		switch c.Fn {
		case "arr":
			if tv.Ty.K == KSlice && sameTy(tv.Ty.Elem, ety) {
				alts = append(alts, eq(a, "(s-arr "+tv.T+")"))
			}
		case "arrs":
			if tv.Ty.K == KSlice && tv.Ty.Elem.K == KSlice && sameTy(tv.Ty.Elem.Elem, ety) {
				i := fmt.Sprintf("i$%d", vc.nextBound())
				M := vc.mem(st, elemMem(tv.Ty.Elem), elemMemSort(tv.Ty.Elem))
				inner := sel(sel(M, "(s-arr "+tv.T+")"), i)
				alts = append(alts, fmt.Sprintf("(exists ((%s Int)) (! (and (<= 0 %s) (< %s (s-len %s)) (= %s (s-arr %s))) :pattern (%s)))", i, i, i, tv.T, a, inner, inner))
			}
		}
	}
	return or(alts...)
}

// havocMem replaces a memory by a fresh version in which pre-existing objects are unchanged.
func (fr *Frame) havocMem(m, srt string, modF func(T, f, r string) string, modA func(ety *Ty, a string) string) {
	pre := fr.st.clone()
	f := fr.havocMemFacts(m, srt, pre, fr.st, "h", modF, modA)
	fr.assumeHere(f, "hv")
}

func (fr *Frame) havocMemFacts(m, srt string, pre, post State, tag string, modF func(T, f, r string) string, modA func(ety *Ty, a string) string) string {
	vc := fr.vc()
	vc.sorts[m] = srt
	old := vc.mem(pre, m, srt)
	c := vc.fresh(m+"@"+tag, srt)
	post[m] = c
	var facts []string
	switch {
	case strings.HasPrefix(m, "H."):
		parts := strings.SplitN(m[2:], ".", 2)
		n0 := vc.mem(pre, ctrStruct(parts[0]), "Int")
		r := fmt.Sprintf("r$%d", vc.nextBound())
		exc := "false"
		if modF != nil {
			exc = modF(parts[0], parts[1], r)
		}
		facts = append(facts, fmt.Sprintf("(forall ((%s Int)) (! (=> (and (< %s %s) %s) (= %s %s)) :pattern (%s)))", r, r, n0, not(exc), sel(c, r), sel(old, r), sel(c, r)))
	case strings.HasPrefix(m, "M."):
		ety := fr.e.p.u.ElemTys[m[2:]]
		if ety != nil {
			n0 := vc.mem(pre, ctrArr(ety), "Int")
			a := fmt.Sprintf("a$%d", vc.nextBound())
			exc := "false"
			if modA != nil {
				exc = modA(ety, a)
			}
			facts = append(facts, fmt.Sprintf("(forall ((%s Int)) (! (=> (and (< %s %s) %s) (= %s %s)) :pattern (%s)))", a, a, n0, not(exc), sel(c, a), sel(old, a), sel(c, a)))
		}
	case strings.HasPrefix(m, "C."):
		ety := fr.e.p.u.ElemTys[m[2:]]
		if ety != nil {
			n0 := vc.mem(pre, ctrCell(ety), "Int")
			a := fmt.Sprintf("c$%d", vc.nextBound())
			facts = append(facts, fmt.Sprintf("(forall ((%s Int)) (! (=> (< %s %s) (= %s %s)) :pattern (%s)))", a, a, n0, sel(c, a), sel(old, a), sel(c, a)))
		}
	case strings.HasPrefix(m, "MH."), strings.HasPrefix(m, "MV."):
		n0 := vc.mem(pre, "NM."+m[strings.Index(m, ".")+1:], "Int")
		a := fmt.Sprintf("m$%d", vc.nextBound())
		facts = append(facts, fmt.Sprintf("(forall ((%s Int)) (! (=> (< %s %s) (= %s %s)) :pattern (%s)))", a, a, n0, sel(c, a), sel(old, a), sel(c, a)))
	}
	facts = append(facts, fr.memWF(m, post))
	return and(facts...)
}

// ---- inlining ----

func (fr *Frame) inlineCall(x *ssa.Call, callee *ssa.Function, ord int) {
	vc := fr.vc()
	name := fr.e.p.fnName(callee)
	fr.e.res.inlined[name]++
	fr.e.nInline++
	ch := fr.e.newFrame(callee, fmt.Sprintf("i%d_", fr.e.nInline), false, fr.depth+1)
	ch.topFrame = fr.topFrame
	ch.label = fmt.Sprintf("%s/%s@%d", fr.label, name, ord)
	ch.reach = fr.reach
	ch.st = fr.st.clone()
	ch.entry = fr.st
	args := fr.argTVs(x, callee)
	for i, prm := range callee.Params {
		ch.vals[prm] = args[i]
	}
	// call-site assertions may be attached to an inlined call too ("call": before it; "after": in the state after it)
	fr.callAssertsPhase(x, name, ord, false)
	ch.reach = fr.reach
	defer func() {
		if fr.reach != "false" {
			fr.callAssertsPhase(x, name, ord, true)
		}
	}()
	// nested closures / addresses of argument values are not passed through
	ch.encodeBody()
	if len(ch.rets) == 0 {
		fr.reach = "false"
		return
	}
	rs := callee.Signature.Results()
	if len(ch.rets) == 1 {
		fr.reach = ch.rets[0].reach
		fr.st = ch.rets[0].st
		fr.setResult(x, ch.rets[0].vals)
		return
	}
	var edges []*edge
	var conds []string
	for _, r := range ch.rets {
		edges = append(edges, &edge{cond: r.reach, st: r.st})
		conds = append(conds, r.reach)
	}
	nr := vc.fresh("R_ret_"+name, "Bool")
	vc.assume(implies(nr, or(conds...)))
	fr.reach = nr
	fr.st = fr.mergeStates(edges, fmt.Sprintf("ret%d", fr.e.nInline))
	var results []TV
	for i := 0; i < rs.Len(); i++ {
		ty := fr.tyOf(rs.At(i).Type())
		term := ch.rets[len(ch.rets)-1].vals[i].T
		for k := len(ch.rets) - 2; k >= 0; k-- {
			term = "(ite " + ch.rets[k].reach + " " + ch.rets[k].vals[i].T + " " + term + ")"
		}
		c := vc.fresh(fmt.Sprintf("%s%s_r%d", fr.prefix, x.Name(), i), ty.Sort())
		vc.assume(eq(c, term))
		results = append(results, TV{c, ty})
	}
	fr.setResult(x, results)
}

// ---- may-write sets ----

func (p *Program) modset(fn *ssa.Function) map[string]string {
	if p.modsetsDone {
		return p.modsets[fn]
	}
	// fixpoint over all functions
	for _, f := range p.allFns {
		p.modsets[f] = map[string]string{}
	}
	for changed := true; changed; {
		changed = false
		for _, f := range p.allFns {
			before := len(p.modsets[f])
			for _, b := range f.Blocks {
				for _, ins := range b.Instrs {
					p.instrMod(ins, p.modsets[f], nil)
				}
			}
			if c := p.contractOf(f); c != nil {
				for _, g := range c.Ghost {
					if gt, ok := p.cs.GhostVar[g]; ok {
						if ty, err := p.u.tyOfTypeExpr(gt, p.cs); err == nil {
							p.modsets[f][ghostMem(g)] = ty.Sort()
						}
					}
				}
			}
			if len(p.modsets[f]) != before {
				changed = true
			}
		}
	}
	p.modsetsDone = true
	return p.modsets[fn]
}

func (p *Program) instrMod(ins ssa.Instruction, mod map[string]string, _ *Enc) {
	u := p.u
	addStruct := func(T string) {
		mod[ctrStruct(T)] = "Int"
		for _, f := range u.Structs[T].Fields {
			mod[fieldMem(T, f.Name)] = arraySort("Int", f.Ty.Sort())
		}
		for _, g := range p.cs.GhostFields {
			if g.Struct == T {
				if ty, err := u.tyOfTypeExpr(g.Ty, p.cs); err == nil {
					mod[fieldMem(T, g.Name)] = arraySort("Int", ty.Sort())
				}
			}
		}
	}
	addArr := func(e *Ty, alloc bool) {
		u.regElem(e)
		if alloc {
			mod[ctrArr(e)] = "Int"
		}
		mod[elemMem(e)] = elemMemSort(e)
	}
	addCell := func(e *Ty, alloc bool) {
		u.regElem(e)
		if alloc {
			mod[ctrCell(e)] = "Int"
		}
		mod[cellMem(e)] = arraySort("Int", e.Sort())
	}
	switch x := ins.(type) {
	case *ssa.Alloc:
		ty, err := u.tyOf(x.Type())
		if err != nil {
			return
		}
		switch ty.K {
		case KRef:
			addStruct(ty.Name)
		case KArrPtr:
			addArr(ty.Elem, true)
		case KPtr:
			addCell(ty.Elem, true)
		}
	case *ssa.Store:
		switch a := x.Addr.(type) {
		case *ssa.FieldAddr:
			pt := a.X.Type().Underlying().(*types.Pointer).Elem()
			ty, err := u.tyOf(pt)
			if err != nil {
				return
			}
			f := pt.Underlying().(*types.Struct).Field(a.Field)
			fty, err := u.tyOf(f.Type())
			if err != nil {
				return
			}
			mod[fieldMem(ty.Name, f.Name())] = arraySort("Int", fty.Sort())
		case *ssa.IndexAddr:
			ty, err := u.tyOf(a.X.Type())
			if err != nil {
				return
			}
			if ty.K == KSlice || ty.K == KArrPtr {
				addArr(ty.Elem, false)
			}
		default:
			ty, err := u.tyOf(x.Addr.Type())
			if err != nil {
				return
			}
			switch ty.K {
			case KRef:
				for _, f := range u.Structs[ty.Name].Fields {
					mod[fieldMem(ty.Name, f.Name)] = arraySort("Int", f.Ty.Sort())
				}
			case KPtr:
				addCell(ty.Elem, false)
			}
		}
	case *ssa.MakeSlice:
		if ty, err := u.tyOf(x.Type()); err == nil {
			addArr(ty.Elem, true)
		}
	case *ssa.MakeMap:
		if ty, err := u.tyOf(x.Type()); err == nil {
			mod[ctrMap(ty)] = "Int"
			mod[mapHasMem(ty)] = arraySort("Int", arraySort(ty.Key.Sort(), "Bool"))
			mod[mapValMem(ty)] = arraySort("Int", arraySort(ty.Key.Sort(), ty.Val.Sort()))
		}
	case *ssa.MapUpdate:
		if ty, err := u.tyOf(x.Map.Type()); err == nil {
			mod[mapHasMem(ty)] = arraySort("Int", arraySort(ty.Key.Sort(), "Bool"))
			mod[mapValMem(ty)] = arraySort("Int", arraySort(ty.Key.Sort(), ty.Val.Sort()))
		}
	case *ssa.Call:
		cc := x.Common()
		switch c := cc.Value.(type) {
		case *ssa.Builtin:
			if c.Name() == "append" {
				if ty, err := u.tyOf(x.Type()); err == nil && ty.K == KSlice {
					addArr(ty.Elem, true)
				}
			}
		case *ssa.Function:
			if p.inVerified(c) {
				for k, v := range p.modsets[c] {
					mod[k] = v
				}
			} else {
				switch c.String() {
				case "(*regexp.Regexp).FindStringIndex":
					addArr(tyInt, true)
				case "sort.Slice":
					if mi, ok := cc.Args[0].(*ssa.MakeInterface); ok {
						if ty, err := u.tyOf(mi.X.Type()); err == nil && ty.K == KSlice {
							addArr(ty.Elem, false)
						}
					}
					if mc, ok := cc.Args[1].(*ssa.MakeClosure); ok {
						if cf, ok := mc.Fn.(*ssa.Function); ok {
							for k, v := range p.modsets[cf] {
								mod[k] = v
							}
						}
					}
				}
			}
		}
	}
}

func (u *Universe) regElem(e *Ty) {
	if u.ElemTys == nil {
		u.ElemTys = map[string]*Ty{}
	}
	u.ElemTys[e.MemKey()] = e
}

// instrDirty adds to dirty the memories in which an instruction may write an
// object that is not syntactically allocated "inside" (the set of SSA values
// defined in the region under consideration).
func (p *Program) instrDirty(ins ssa.Instruction, dirty map[string]bool, inside map[ssa.Value]bool, depth int) {
	u := p.u
	freshBase := func(v ssa.Value) bool {
		for {
			switch x := v.(type) {
			case *ssa.Alloc:
				return inside[x]
			case *ssa.MakeSlice:
				return inside[x]
			case *ssa.MakeMap:
				return inside[x]
			case *ssa.Slice:
				v = x.X
				continue
			case *ssa.ChangeType:
				v = x.X
				continue
			}
			return false
		}
	}
	switch x := ins.(type) {
	case *ssa.Store:
		switch a := x.Addr.(type) {
		case *ssa.FieldAddr:
			if freshBase(a.X) {
				return
			}
			pt := a.X.Type().Underlying().(*types.Pointer).Elem()
			if ty, err := u.tyOf(pt); err == nil {
				dirty[fieldMem(ty.Name, pt.Underlying().(*types.Struct).Field(a.Field).Name())] = true
			}
		case *ssa.IndexAddr:
			if freshBase(a.X) {
				return
			}
			if ty, err := u.tyOf(a.X.Type()); err == nil && (ty.K == KSlice || ty.K == KArrPtr) {
				dirty[elemMem(ty.Elem)] = true
			}
		default:
			if freshBase(x.Addr) {
				return
			}
			if ty, err := u.tyOf(x.Addr.Type()); err == nil {
				switch ty.K {
				case KRef:
					for _, f := range u.Structs[ty.Name].Fields {
						dirty[fieldMem(ty.Name, f.Name)] = true
					}
				case KPtr:
					dirty[cellMem(ty.Elem)] = true
				}
			}
		}
	case *ssa.MapUpdate:
		if freshBase(x.Map) {
			return
		}
		if ty, err := u.tyOf(x.Map.Type()); err == nil {
			dirty[mapHasMem(ty)] = true
			dirty[mapValMem(ty)] = true
		}
	case *ssa.Call:
		cc := x.Common()
		switch c := cc.Value.(type) {
		case *ssa.Builtin:
			if c.Name() == "append" {
				if k, ok := cc.Args[0].(*ssa.Const); ok && k.Value == nil {
					return
				}
				if ty, err := u.tyOf(x.Type()); err == nil && ty.K == KSlice {
					dirty[elemMem(ty.Elem)] = true
				}
			}
		case *ssa.Function:
			if !p.inVerified(c) {
				if c.String() == "sort.Slice" {
					if mi, ok := cc.Args[0].(*ssa.MakeInterface); ok {
						if ty, err := u.tyOf(mi.X.Type()); err == nil && ty.K == KSlice {
							dirty[elemMem(ty.Elem)] = true
						}
					}
				}
				return
			}
			if p.inlinable(c) && depth < maxInlineDepth {
				in2 := map[ssa.Value]bool{}
				for _, b := range c.Blocks {
					for _, i2 := range b.Instrs {
						if v, ok := i2.(ssa.Value); ok {
							in2[v] = true
						}
					}
				}
				for _, b := range c.Blocks {
					for _, i2 := range b.Instrs {
						p.instrDirty(i2, dirty, in2, depth+1)
					}
				}
				return
			}
			ct := p.contractOf(c)
			if ct == nil || !ct.HasModifies {
				if ct == nil {
					for m := range p.modset(c) {
						dirty[m] = true
					}
				}
				// a contract without a modifies clause means "modifies nothing"
				return
			}
			for _, m := range ct.Modifies {
				switch me := m.(type) {
				case *EField:
					// the struct type is not known syntactically here: mark the field name in every struct that has it
					for T, si := range u.Structs {
						if si.Field(me.F) != nil {
							dirty[fieldMem(T, me.F)] = true
						}
					}
				case *ECall:
					// arr(s) / arrs(ss): mark every element memory (conservative)
					for k := range u.ElemTys {
						dirty["M."+k] = true
					}
				}
			}
		}
	}
}

// ---- termination: measures of recursive functions ----------------------------------------------------------------

// checkMeasure: a call that may lead back to the calling function (caller and callee lie on a cycle of the static call
// graph) must strictly decrease the termination measure - a tuple of natural numbers ordered lexicographically, given by
// the decreases clauses of the two contracts - evaluated for the callee in the state before the call and for the caller
// at its own entry.
func (fr *Frame) checkMeasure(x *ssa.Call, callee *ssa.Function, cc *FuncContract, vars map[string]TV, pre State, tag string) {
	vc := fr.vc()
	top := fr.topFrame
	tc := top.contract
	name := "measure:" + tag
	if tc == nil || len(tc.Decreases) == 0 || cc == nil || len(cc.Decreases) == 0 {
		fr.oblige("measure", name+"-missing", []string{"C03"}, "false", "caller and callee of a recursive call need decreases clauses", x.Pos(), "")
		return
	}
	if len(tc.Decreases) != len(cc.Decreases) {
		vc.addErr("%s: decreases tuples of %s and %s differ in length", fr.label, tc.Name, cc.Name)
		return
	}
	env0 := &SpecEnv{vc: vc, vars: top.specVars, st: top.funcEntry, old: top.funcEntry, autoDeref: top.autoDeref}
	env1 := &SpecEnv{vc: vc, vars: vars, st: pre, old: pre}
	var m0, m1 []string
	for i := range tc.Decreases {
		a, err := env0.tr(tc.Decreases[i])
		if err != nil || a.Ty.K != KInt {
			vc.addErr("%s: decreases of %s: component %d: %v", fr.label, tc.Name, i, err)
			return
		}
		b, err := env1.tr(cc.Decreases[i])
		if err != nil || b.Ty.K != KInt {
			vc.addErr("%s: decreases of %s (at call): component %d: %v", fr.label, cc.Name, i, err)
			return
		}
		m0 = append(m0, a.T)
		m1 = append(m1, b.T)
	}
	var nat []string
	for _, b := range m1 {
		nat = append(nat, "(<= 0 "+b+")")
	}
	less := "false"
	for i := len(m0) - 1; i >= 0; i-- {
		less = or("(< "+m1[i]+" "+m0[i]+")", and(eq(m1[i], m0[i]), less))
	}
	fr.oblige("measure", name, cc.DecrClause.Props, and(append(nat, less)...), "decreases "+cc.DecrClause.Src+" (callee) < decreases "+tc.DecrClause.Src+" (caller)", x.Pos(), "")
}
