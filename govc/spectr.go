package main

// Translation of contract expressions to SMT terms in a given environment
// (variable bindings) and state (memory versions).

import (
	"fmt"
	"strings"
)

type TV struct {
	T  string
	Ty *Ty
}

type SpecEnv struct {
	vc          *VC
	vars        map[string]TV
	st          State
	old         State // function-entry state (nil if not meaningful)
	depth       int
	autoDeref   map[string]bool
	unfoldDepth int
	// allocation counters at function entry are read from old
}

func (e *SpecEnv) with(vars map[string]TV) *SpecEnv {
	n := *e
	n.vars = map[string]TV{}
	for k, v := range e.vars {
		n.vars[k] = v
	}
	for k, v := range vars {
		n.vars[k] = v
	}
	return &n
}

func (e *SpecEnv) inState(st State) *SpecEnv {
	n := *e
	n.st = st
	return &n
}

func (u *Universe) tyOfTypeExpr(t *TypeExpr, cs *Contracts) (*Ty, error) {
	if t == nil {
		return tyInt, nil
	}
	switch t.Kind {
	case "ptr":
		if t.Elem.Kind == "name" {
			if _, ok := u.Structs[t.Elem.Name]; ok {
				return &Ty{K: KRef, Name: t.Elem.Name}, nil
			}
		}
		et, err := u.tyOfTypeExpr(t.Elem, cs)
		if err != nil {
			return nil, err
		}
		return &Ty{K: KPtr, Elem: et}, nil
	case "slice":
		et, err := u.tyOfTypeExpr(t.Elem, cs)
		if err != nil {
			return nil, err
		}
		return &Ty{K: KSlice, Elem: et}, nil
	case "seq":
		et, err := u.tyOfTypeExpr(t.Elem, cs)
		if err != nil {
			return nil, err
		}
		return &Ty{K: KSeq, Elem: et}, nil
	case "map":
		kt, err := u.tyOfTypeExpr(t.Key, cs)
		if err != nil {
			return nil, err
		}
		vt, err := u.tyOfTypeExpr(t.Elem, cs)
		if err != nil {
			return nil, err
		}
		return &Ty{K: KMap, Key: kt, Val: vt}, nil
	}
	switch t.Name {
	case "int", "uint8", "byte":
		return tyInt, nil
	case "bool":
		return tyBool, nil
	case "string":
		return tyString, nil
	case "error":
		return tyErr, nil
	}
	if _, ok := u.Structs[t.Name]; ok {
		return &Ty{K: KStruct, Name: t.Name}, nil
	}
	if cs != nil && cs.GhostTys[t.Name] {
		return &Ty{K: KGhost, Name: t.Name}, nil
	}
	return nil, fmt.Errorf("unknown type %s in contract", t.Name)
}

func (e *SpecEnv) tr(x Expr) (TV, error) {
	vc := e.vc
	switch x := x.(type) {
	case *EInt:
		return TV{smtInt(x.V), tyInt}, nil
	case *EStr:
		return TV{smtString(x.V), tyString}, nil
	case *EBool:
		if x.V {
			return TV{"true", tyBool}, nil
		}
		return TV{"false", tyBool}, nil
	case *ENil:
		return TV{"0", &Ty{K: KRef, Name: "?nil"}}, nil
	case *EIdent:
		if v, ok := e.vars[x.Name]; ok {
			if e.autoDeref[x.Name] && v.Ty.K == KPtr {
				return vc.loadPtr(e.st, v)
			}
			return v, nil
		}
		if gt, ok := vc.cs.GhostVar[x.Name]; ok {
			ty, err := vc.u.tyOfTypeExpr(gt, vc.cs)
			if err != nil {
				return TV{}, err
			}
			return TV{vc.mem(e.st, ghostMem(x.Name), ty.Sort()), ty}, nil
		}
		return TV{}, fmt.Errorf("unknown identifier %q", x.Name)
	case *EOld:
		if e.old == nil {
			return TV{}, fmt.Errorf("old() not available here")
		}
		return e.inState(e.old).tr(x.X)
	case *EUn:
		v, err := e.tr(x.X)
		if err != nil {
			return TV{}, err
		}
		switch x.Op {
		case "!":
			if v.Ty.K != KBool {
				return TV{}, fmt.Errorf("! applied to %s in %s", v.Ty, x)
			}
			return TV{not(v.T), tyBool}, nil
		case "-":
			return TV{"(- " + v.T + ")", tyInt}, nil
		}
	case *EBin:
		return e.trBin(x)
	case *EField:
		v, err := e.tr(x.X)
		if err != nil {
			return TV{}, err
		}
		switch v.Ty.K {
		case KRef:
			srt, fty, err := vc.fieldSort(v.Ty.Name, x.F)
			if err != nil {
				return TV{}, err
			}
			return TV{sel(vc.mem(e.st, fieldMem(v.Ty.Name, x.F), srt), v.T), fty}, nil
		case KStruct:
			si := vc.u.Structs[v.Ty.Name]
			fi := si.Field(x.F)
			if fi == nil {
				return TV{}, fmt.Errorf("struct %s has no field %s", v.Ty.Name, x.F)
			}
			return TV{"(" + v.Ty.Name + ".." + x.F + " " + v.T + ")", fi.Ty}, nil
		}
		return TV{}, fmt.Errorf("field access .%s on %s in %s", x.F, v.Ty, x)
	case *EIndex:
		v, err := e.tr(x.X)
		if err != nil {
			return TV{}, err
		}
		i, err := e.tr(x.I)
		if err != nil {
			return TV{}, err
		}
		switch v.Ty.K {
		case KSlice:
			m := vc.mem(e.st, elemMem(v.Ty.Elem), elemMemSort(v.Ty.Elem))
			return TV{sel(vc.seed(sel(m, "(s-arr "+v.T+")"), arraySort("Int", v.Ty.Elem.Sort())), i.T), v.Ty.Elem}, nil
		case KString:
			return TV{"(str.at " + v.T + " " + i.T + ")", tyString}, nil
		case KMap:
			m := vc.mem(e.st, mapValMem(v.Ty), arraySort("Int", arraySort(v.Ty.Key.Sort(), v.Ty.Val.Sort())))
			return TV{sel(sel(m, v.T), i.T), v.Ty.Val}, nil
		case KArrPtr:
			m := vc.mem(e.st, elemMem(v.Ty.Elem), elemMemSort(v.Ty.Elem))
			return TV{sel(sel(m, v.T), i.T), v.Ty.Elem}, nil
		case KSeq:
			return TV{sel(v.T, i.T), v.Ty.Elem}, nil
		}
		return TV{}, fmt.Errorf("index on %s in %s", v.Ty, x)
	case *ESlice:
		v, err := e.tr(x.X)
		if err != nil {
			return TV{}, err
		}
		lo := TV{"0", tyInt}
		if x.Lo != nil {
			if lo, err = e.tr(x.Lo); err != nil {
				return TV{}, err
			}
		}
		switch v.Ty.K {
		case KString:
			hi := TV{"(str.len " + v.T + ")", tyInt}
			if x.Hi != nil {
				if hi, err = e.tr(x.Hi); err != nil {
					return TV{}, err
				}
			}
			return TV{"(str.substr " + v.T + " " + lo.T + " (- " + hi.T + " " + lo.T + "))", tyString}, nil
		case KSlice:
			if x.Lo != nil {
				return TV{}, fmt.Errorf("slice expression with low bound on a slice in %s", x)
			}
			hi := TV{"(s-len " + v.T + ")", tyInt}
			if x.Hi != nil {
				if hi, err = e.tr(x.Hi); err != nil {
					return TV{}, err
				}
			}
			return TV{"(mk-slice (s-arr " + v.T + ") " + hi.T + " (s-cap " + v.T + "))", v.Ty}, nil
		}
		return TV{}, fmt.Errorf("slice expression on %s", v.Ty)
	case *ECall:
		return e.trCall(x)
	case *EQuant:
		vars := map[string]TV{}
		var binders []string
		for _, qv := range x.Vars {
			ty, err := vc.u.tyOfTypeExpr(qv.Ty, vc.cs)
			if err != nil {
				return TV{}, err
			}
			e.depth++
			name := fmt.Sprintf("%s$%d", qv.Name, vc.nextBound())
			vars[qv.Name] = TV{name, ty}
			binders = append(binders, "("+name+" "+ty.Sort()+")")
		}
		ne := e.with(vars)
		body, err := ne.tr(x.Body)
		if err != nil {
			return TV{}, err
		}
		if body.Ty.K != KBool {
			return TV{}, fmt.Errorf("quantifier body is not boolean in %s", x)
		}
		bt := body.T
		if len(x.Triggers) > 0 {
			var pats []string
			for _, trig := range x.Triggers {
				var ts []string
				for _, t := range trig {
					tv, err := ne.tr(t)
					if err != nil {
						return TV{}, err
					}
					ts = append(ts, tv.T)
				}
				pats = append(pats, ":pattern ("+strings.Join(ts, " ")+")")
			}
			bt = "(! " + bt + " " + strings.Join(pats, " ") + ")"
		}
		q := "exists"
		if x.Forall {
			q = "forall"
		}
		return TV{"(" + q + " (" + strings.Join(binders, " ") + ") " + bt + ")", tyBool}, nil
	}
	return TV{}, fmt.Errorf("cannot translate %s", x)
}

func (vc *VC) nextBound() int {
	vc.nfresh++
	return vc.nfresh
}

func isNilLit(x Expr) bool { _, ok := x.(*ENil); return ok }

// nilTest returns the SMT test "v is nil" for a value of the given type.
func nilTest(v TV) (string, error) {
	switch v.Ty.K {
	case KRef, KMap, KArrPtr, KAny:
		return eq(v.T, "0"), nil
	case KSlice:
		return eq("(s-arr "+v.T+")", "0"), nil
	case KPtr:
		return eq(v.T, "pnil"), nil
	case KErr:
		return eq(v.T, "noerr"), nil
	}
	return "", fmt.Errorf("nil comparison on %s", v.Ty)
}

func (e *SpecEnv) trBin(x *EBin) (TV, error) {
	if x.Op == "==" || x.Op == "!=" {
		var other Expr
		if isNilLit(x.L) {
			other = x.R
		} else if isNilLit(x.R) {
			other = x.L
		}
		if other != nil {
			v, err := e.tr(other)
			if err != nil {
				return TV{}, err
			}
			t, err := nilTest(v)
			if err != nil {
				return TV{}, fmt.Errorf("%v in %s", err, x)
			}
			if x.Op == "!=" {
				t = not(t)
			}
			return TV{t, tyBool}, nil
		}
	}
	l, err := e.tr(x.L)
	if err != nil {
		return TV{}, err
	}
	r, err := e.tr(x.R)
	if err != nil {
		return TV{}, err
	}
	needBool := func() error {
		if l.Ty.K != KBool || r.Ty.K != KBool {
			return fmt.Errorf("operator %s needs booleans in %s (got %s, %s)", x.Op, x, l.Ty, r.Ty)
		}
		return nil
	}
	switch x.Op {
	case "&&":
		if err := needBool(); err != nil {
			return TV{}, err
		}
		return TV{and(l.T, r.T), tyBool}, nil
	case "||":
		if err := needBool(); err != nil {
			return TV{}, err
		}
		return TV{or(l.T, r.T), tyBool}, nil
	case "==>":
		if err := needBool(); err != nil {
			return TV{}, err
		}
		return TV{"(=> " + l.T + " " + r.T + ")", tyBool}, nil
	case "<==>":
		if err := needBool(); err != nil {
			return TV{}, err
		}
		return TV{eq(l.T, r.T), tyBool}, nil
	case "==", "!=":
		if l.Ty.Sort() != r.Ty.Sort() {
			return TV{}, fmt.Errorf("comparing %s with %s in %s", l.Ty, r.Ty, x)
		}
		t := eq(l.T, r.T)
		if x.Op == "!=" {
			t = not(t)
		}
		return TV{t, tyBool}, nil
	case "<", "<=", ">", ">=":
		if l.Ty.K == KString && r.Ty.K == KString {
			switch x.Op {
			case "<":
				return TV{"(str.< " + l.T + " " + r.T + ")", tyBool}, nil
			case "<=":
				return TV{"(str.<= " + l.T + " " + r.T + ")", tyBool}, nil
			case ">":
				return TV{"(str.< " + r.T + " " + l.T + ")", tyBool}, nil
			default:
				return TV{"(str.<= " + r.T + " " + l.T + ")", tyBool}, nil
			}
		}
		if l.Ty.Sort() != "Int" || r.Ty.Sort() != "Int" {
			return TV{}, fmt.Errorf("ordering on %s, %s in %s", l.Ty, r.Ty, x)
		}
		return TV{"(" + x.Op + " " + l.T + " " + r.T + ")", tyBool}, nil
	case "+", "++":
		if l.Ty.K == KString && r.Ty.K == KString {
			return TV{"(str.++ " + l.T + " " + r.T + ")", tyString}, nil
		}
		if l.Ty.Sort() != "Int" || r.Ty.Sort() != "Int" {
			return TV{}, fmt.Errorf("+ on %s, %s in %s", l.Ty, r.Ty, x)
		}
		return TV{"(+ " + l.T + " " + r.T + ")", tyInt}, nil
	case "-", "*":
		if l.Ty.Sort() != "Int" || r.Ty.Sort() != "Int" {
			return TV{}, fmt.Errorf("%s on %s, %s in %s", x.Op, l.Ty, r.Ty, x)
		}
		return TV{"(" + x.Op + " " + l.T + " " + r.T + ")", tyInt}, nil
	}
	return TV{}, fmt.Errorf("unsupported operator %s", x.Op)
}

func (e *SpecEnv) trArgs(args []Expr) ([]TV, error) {
	var out []TV
	for _, a := range args {
		v, err := e.tr(a)
		if err != nil {
			return nil, err
		}
		out = append(out, v)
	}
	return out, nil
}

func (e *SpecEnv) trCall(x *ECall) (TV, error) {
	vc := e.vc
	// predicates: macro expansion in the caller's state
	if p, ok := vc.cs.Preds[x.Fn]; ok {
		if len(x.Args) != len(p.Params) {
			return TV{}, fmt.Errorf("pred %s expects %d arguments", p.Name, len(p.Params))
		}
		if e.depth > 40 {
			return TV{}, fmt.Errorf("predicate expansion too deep at %s", x.Fn)
		}
		args, err := e.trArgs(x.Args)
		if err != nil {
			return TV{}, err
		}
		vars := map[string]TV{}
		for i, prm := range p.Params {
			want, err := vc.u.tyOfTypeExpr(prm.Ty, vc.cs)
			if err != nil {
				return TV{}, err
			}
			if want.Sort() != args[i].Ty.Sort() {
				return TV{}, fmt.Errorf("pred %s: argument %d has type %s, want %s", p.Name, i, args[i].Ty, want)
			}
			if args[i].Ty.K == KRef && args[i].Ty.Name == "?nil" {
				args[i].Ty = want
			}
			vars[prm.Name] = args[i]
		}
		ne := &SpecEnv{vc: vc, vars: vars, st: e.st, old: e.old, depth: e.depth + 1}
		// predicate bodies may refer to the caller's special names (entry counters) only through old()
		return ne.tr(p.Body)
	}
	if f, ok := vc.cs.SpecFns[x.Fn]; ok {
		args, err := e.trArgs(x.Args)
		if err != nil {
			return TV{}, err
		}
		defer func() {
			if f.Body != nil {
				vc.noteInstance(f, args, e.unfoldDepth)
			}
		}()
		if len(args) != len(f.Params) {
			return TV{}, fmt.Errorf("fn %s expects %d arguments", f.Name, len(f.Params))
		}
		rt, err := vc.u.tyOfTypeExpr(f.Ret, vc.cs)
		if err != nil {
			return TV{}, err
		}
		var sorts, ts []string
		for i, prm := range f.Params {
			want, err := vc.u.tyOfTypeExpr(prm.Ty, vc.cs)
			if err != nil {
				return TV{}, err
			}
			if want.Sort() != args[i].Ty.Sort() {
				return TV{}, fmt.Errorf("fn %s: argument %d has type %s, want %s", f.Name, i, args[i].Ty, want)
			}
			sorts = append(sorts, want.Sort())
			ts = append(ts, args[i].T)
		}
		if f.SMT != "" {
			if len(ts) == 0 {
				return TV{f.SMT, rt}, nil
			}
			return TV{"(" + f.SMT + " " + strings.Join(ts, " ") + ")", rt}, nil
		}
		vc.declareFun(f.Name, sorts, rt.Sort())
		if len(ts) == 0 {
			return TV{f.Name, rt}, nil
		}
		return TV{"(" + f.Name + " " + strings.Join(ts, " ") + ")", rt}, nil
	}
	args, err := e.trArgs(x.Args)
	if err != nil {
		return TV{}, err
	}
	need := func(n int) error {
		if len(args) != n {
			return fmt.Errorf("%s expects %d arguments in %s", x.Fn, n, x)
		}
		return nil
	}
	switch x.Fn {
	case "len":
		if err := need(1); err != nil {
			return TV{}, err
		}
		switch args[0].Ty.K {
		case KString:
			return TV{"(str.len " + args[0].T + ")", tyInt}, nil
		case KSlice:
			return TV{"(s-len " + args[0].T + ")", tyInt}, nil
		}
		return TV{}, fmt.Errorf("len of %s", args[0].Ty)
	case "cap":
		if err := need(1); err != nil {
			return TV{}, err
		}
		if args[0].Ty.K == KSlice {
			return TV{"(s-cap " + args[0].T + ")", tyInt}, nil
		}
		return TV{}, fmt.Errorf("cap of %s", args[0].Ty)
	case "elems": // elems(s): the contents of the backing array of a slice, as a ghost sequence
		if err := need(1); err != nil {
			return TV{}, err
		}
		if args[0].Ty.K != KSlice {
			return TV{}, fmt.Errorf("elems of %s", args[0].Ty)
		}
		vc.u.regElem(args[0].Ty.Elem)
		m := vc.mem(e.st, elemMem(args[0].Ty.Elem), elemMemSort(args[0].Ty.Elem))
		return TV{vc.seed(sel(m, "(s-arr "+args[0].T+")"), arraySort("Int", args[0].Ty.Elem.Sort())), &Ty{K: KSeq, Elem: args[0].Ty.Elem}}, nil
	case "elemHeap": // elemHeap(s): the whole element memory that holds the backing array of slice s (array id -> contents)
		if err := need(1); err != nil {
			return TV{}, err
		}
		if args[0].Ty.K != KSlice {
			return TV{}, fmt.Errorf("elemHeap of %s", args[0].Ty)
		}
		vc.u.regElem(args[0].Ty.Elem)
		return TV{vc.mem(e.st, elemMem(args[0].Ty.Elem), elemMemSort(args[0].Ty.Elem)), &Ty{K: KSeq, Elem: &Ty{K: KSeq, Elem: args[0].Ty.Elem}}}, nil
	case "innerHeap": // innerHeap(R) for R [][]E: the element memory of the inner slices (array id -> contents)
		if err := need(1); err != nil {
			return TV{}, err
		}
		if args[0].Ty.K != KSlice || args[0].Ty.Elem.K != KSlice {
			return TV{}, fmt.Errorf("innerHeap of %s", args[0].Ty)
		}
		vc.u.regElem(args[0].Ty.Elem.Elem)
		return TV{vc.mem(e.st, elemMem(args[0].Ty.Elem.Elem), elemMemSort(args[0].Ty.Elem.Elem)), &Ty{K: KSeq, Elem: &Ty{K: KSeq, Elem: args[0].Ty.Elem.Elem}}}, nil
	case "fieldHeap": // fieldHeap("T", "f"): the heap array of field f of struct T (object -> value)
		if err := need(2); err != nil {
			return TV{}, err
		}
		ts, ok1 := x.Args[0].(*EStr)
		fs, ok2 := x.Args[1].(*EStr)
		if !ok1 || !ok2 {
			return TV{}, fmt.Errorf("fieldHeap needs two string literals")
		}
		srt, fty, err := vc.fieldSort(ts.V, fs.V)
		if err != nil {
			return TV{}, err
		}
		return TV{vc.mem(e.st, fieldMem(ts.V, fs.V), srt), &Ty{K: KSeq, Elem: fty}}, nil
	case "arr":
		if err := need(1); err != nil {
			return TV{}, err
		}
		if args[0].Ty.K == KSlice {
			return TV{"(s-arr " + args[0].T + ")", tyInt}, nil
		}
		return TV{}, fmt.Errorf("arr of %s", args[0].Ty)
	case "HasPrefix":
		if err := need(2); err != nil {
			return TV{}, err
		}
		return TV{"(str.prefixof " + args[1].T + " " + args[0].T + ")", tyBool}, nil
	case "HasSuffix":
		if err := need(2); err != nil {
			return TV{}, err
		}
		return TV{"(str.suffixof " + args[1].T + " " + args[0].T + ")", tyBool}, nil
	case "Contains":
		if err := need(2); err != nil {
			return TV{}, err
		}
		return TV{"(str.contains " + args[0].T + " " + args[1].T + ")", tyBool}, nil
	case "EqualFold":
		if err := need(2); err != nil {
			return TV{}, err
		}
		return TV{"(EqualFold " + args[0].T + " " + args[1].T + ")", tyBool}, nil
	case "ToLower":
		if err := need(1); err != nil {
			return TV{}, err
		}
		return TV{"(ToLower " + args[0].T + ")", tyString}, nil
	case "ite":
		if err := need(3); err != nil {
			return TV{}, err
		}
		if args[1].Ty.Sort() != args[2].Ty.Sort() {
			return TV{}, fmt.Errorf("ite branches differ in type in %s", x)
		}
		return TV{"(ite " + args[0].T + " " + args[1].T + " " + args[2].T + ")", args[1].Ty}, nil
	case "has": // has(m, k): key present in map
		if err := need(2); err != nil {
			return TV{}, err
		}
		if args[0].Ty.K != KMap {
			return TV{}, fmt.Errorf("has() on %s", args[0].Ty)
		}
		m := vc.mem(e.st, mapHasMem(args[0].Ty), arraySort("Int", arraySort(args[0].Ty.Key.Sort(), "Bool")))
		return TV{sel(sel(m, args[0].T), args[1].T), tyBool}, nil
	case "deref": // deref(p) for *string etc.
		if err := need(1); err != nil {
			return TV{}, err
		}
		if args[0].Ty.K != KPtr {
			return TV{}, fmt.Errorf("deref of %s", args[0].Ty)
		}
		t, err := vc.loadPtr(e.st, args[0])
		if err != nil {
			return TV{}, err
		}
		return t, nil
	case "isErr":
		if err := need(1); err != nil {
			return TV{}, err
		}
		return TV{not(eq(args[0].T, "noerr")), tyBool}, nil
	case "msg":
		if err := need(1); err != nil {
			return TV{}, err
		}
		return TV{"(errmsg " + args[0].T + ")", tyString}, nil
	case "allocated": // allocated(x): x is a non-nil object that exists in this state
		if err := need(1); err != nil {
			return TV{}, err
		}
		c, err := vc.counterOf(e.st, args[0])
		if err != nil {
			return TV{}, err
		}
		id := idOf(args[0])
		return TV{and("(< 0 "+id+")", "(< "+id+" "+c+")"), tyBool}, nil
	case "fresh": // fresh(x): allocated since function entry
		if err := need(1); err != nil {
			return TV{}, err
		}
		if e.old == nil {
			return TV{}, fmt.Errorf("fresh() not available here")
		}
		c0, err := vc.counterOf(e.old, args[0])
		if err != nil {
			return TV{}, err
		}
		c, err := vc.counterOf(e.st, args[0])
		if err != nil {
			return TV{}, err
		}
		id := idOf(args[0])
		return TV{and("(<= "+c0+" "+id+")", "(< "+id+" "+c+")"), tyBool}, nil
	case "existed": // existed(x): object existed at function entry (or is nil)
		if err := need(1); err != nil {
			return TV{}, err
		}
		if e.old == nil {
			return TV{}, fmt.Errorf("existed() not available here")
		}
		c0, err := vc.counterOf(e.old, args[0])
		if err != nil {
			return TV{}, err
		}
		id := idOf(args[0])
		return TV{and("(<= 0 "+id+")", "(< "+id+" "+c0+")"), tyBool}, nil
	case "charAt": // charAt(s, i): the one-character string at position i ("" outside the string)
		if err := need(2); err != nil {
			return TV{}, err
		}
		return TV{"(str.at " + args[0].T + " " + args[1].T + ")", tyString}, nil
	case "str_at_code":
		if err := need(2); err != nil {
			return TV{}, err
		}
		return TV{"(str.to_code (str.at " + args[0].T + " " + args[1].T + "))", tyInt}, nil
	case "indexOf":
		if err := need(3); err != nil {
			return TV{}, err
		}
		return TV{"(str.indexof " + args[0].T + " " + args[1].T + " " + args[2].T + ")", tyInt}, nil
	case "classRun": // classRun(s, "idch"|"space"): the maximal prefix of s made of characters of the class
		if err := need(2); err != nil {
			return TV{}, err
		}
		lit, ok := x.Args[1].(*EStr)
		if !ok {
			return TV{}, fmt.Errorf("classRun needs a literal class name")
		}
		body := map[string]string{"idch": "A-Za-z0-9-.", "space": " "}[lit.V]
		if body == "" {
			return TV{}, fmt.Errorf("unknown class %q", lit.V)
		}
		return TV{classRunApp(vc, body, args[0].T, false), tyString}, nil
	case "runLen": // runLen(s, "idch"|"space"): the length of the maximal prefix of s made of characters of the class
		if err := need(2); err != nil {
			return TV{}, err
		}
		lit, ok := x.Args[1].(*EStr)
		if !ok {
			return TV{}, fmt.Errorf("runLen needs a literal class name")
		}
		body := map[string]string{"idch": "A-Za-z0-9-.", "space": " "}[lit.V]
		if body == "" {
			return TV{}, fmt.Errorf("unknown class %q", lit.V)
		}
		return TV{runLenApp(vc, body, args[0].T), tyInt}, nil
	case "inRe": // inRe(s, "idch*") etc: fixed regular languages
		if err := need(2); err != nil {
			return TV{}, err
		}
		lit, ok := x.Args[1].(*EStr)
		if !ok {
			return TV{}, fmt.Errorf("inRe needs a literal class name")
		}
		re, err := reByName(lit.V)
		if err != nil {
			return TV{}, err
		}
		return TV{"(str.in_re " + args[0].T + " " + re + ")", tyBool}, nil
	}
	return TV{}, fmt.Errorf("unknown function %s in contract", x.Fn)
}

const reIDCH = `(re.union (re.range "A" "Z") (re.range "a" "z") (re.range "0" "9") (str.to_re "-") (str.to_re "."))`

func reByName(n string) (string, error) {
	switch n {
	case "idch*":
		return "(re.* " + reIDCH + ")", nil
	case "idch+":
		return "(re.+ " + reIDCH + ")", nil
	case "idch":
		return reIDCH, nil
	case "space*":
		return `(re.* (str.to_re " "))`, nil
	}
	return "", fmt.Errorf("unknown regular class %q", n)
}

func idOf(v TV) string {
	if v.Ty.K == KSlice {
		return "(s-arr " + v.T + ")"
	}
	return v.T
}

func (vc *VC) counterOf(st State, v TV) (string, error) {
	switch v.Ty.K {
	case KRef:
		return vc.mem(st, ctrStruct(v.Ty.Name), "Int"), nil
	case KSlice:
		return vc.mem(st, ctrArr(v.Ty.Elem), "Int"), nil
	case KArrPtr:
		return vc.mem(st, ctrArr(v.Ty.Elem), "Int"), nil
	case KMap:
		return vc.mem(st, ctrMap(v.Ty), "Int"), nil
	}
	return "", fmt.Errorf("no allocation counter for %s", v.Ty)
}

// loadPtr reads through a Ptr value (pointer to a non-struct cell or to a string field).
func (vc *VC) loadPtr(st State, p TV) (TV, error) {
	el := p.Ty.Elem
	cell := sel(vc.mem(st, cellMem(el), arraySort("Int", el.Sort())), "(pc-id "+p.T+")")
	if el.K != KString {
		return TV{cell, el}, nil
	}
	// dispatch over the string fields whose address can be taken
	t := cell
	for i := len(vc.u.StrFields) - 1; i >= 0; i-- {
		parts := strings.SplitN(vc.u.StrFields[i], ".", 2)
		srt, _, err := vc.fieldSort(parts[0], parts[1])
		if err != nil {
			return TV{}, err
		}
		h := vc.mem(st, fieldMem(parts[0], parts[1]), srt)
		t = fmt.Sprintf("(ite (and ((_ is pfield) %s) (= (pf-fid %s) %d)) %s %s)", p.T, p.T, i+1, sel(h, "(pf-obj "+p.T+")"), t)
	}
	return TV{t, el}, nil
}

// seed puts a ground term into the solver's term graph even when it only occurs
// under a quantifier (E-matching needs the ground term to instantiate frame
// axioms).  It asserts an uninterpreted predicate of the term: unlike a defining
// equation this cannot be eliminated by the solver's preprocessing.
func (vc *VC) seed(term, sort string) string {
	if strings.Contains(term, "$") {
		return term
	}
	if vc.seeds == nil {
		vc.seeds = map[string]string{}
	}
	if _, ok := vc.seeds[term]; ok {
		return term
	}
	fn := "seed_" + sanitize(strings.NewReplacer("(", "", ")", "", " ", "_").Replace(sort))
	vc.declareFun(fn, []string{sort}, "Bool")
	vc.assume("(" + fn + " " + term + ")")
	vc.seeds[term] = fn
	return term
}
