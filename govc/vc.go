package main

// Verification-condition container: declarations, assumptions (each tied to a
// reachability transition, see enc.go), and named obligations.

import (
	"fmt"
	"sort"
	"strings"
)

type State map[string]string // memory name -> SMT term (absent = root version)

func (s State) clone() State {
	n := make(State, len(s))
	for k, v := range s {
		n[k] = v
	}
	return n
}

type Oblig struct {
	Name   string
	Func   string
	Kind   string // nil-deref, bounds, requires, ensures, invariant-entry, invariant-preserved, frame, typeinv, assert, ...
	Props  []string
	Guard  string
	Goal   string
	Clause string // clause text when it comes from a contract
	Where  string // file:line of the Go code
	nAssum int    // number of assumptions visible
	nDecl  int
	Note   string
}

type VC struct {
	u           *Universe
	cs          *Contracts
	Func        string
	decls       []string
	declSet     map[string]bool
	assum       []string
	axiomTags   map[string][]string // scoped axioms (text -> tags): given only to the obligations of their property / group
	assumTags   map[int][]string    // index into assum -> property tags of a 'scoped' clause (visible only to obligations of those properties)
	obligs      []*Oblig
	roots       map[string]string // memory name -> root const
	sorts       map[string]string // memory name -> sort
	nfresh      int
	errs        []string // "outside subset" reasons: every obligation of the function is then undischarged
	assumed     []string // assumptions about externals used while encoding (for evidence)
	names       map[string]int
	rootAssum   []string
	seeds       map[string]string
	classAxioms []string
	classInst   map[string]bool
	strFacts    []string             // ground facts about substrings: only given to obligations whose goal is about strings
	subs        map[string][]subTerm // root string -> substring terms built over it
	subDef      map[string]subTerm   // SSA constant defined as a substring -> (root, lo, len)
	instances   []*defInstance
	instSeen    map[string]bool
}

func newVC(u *Universe, cs *Contracts, fn string) *VC {
	return &VC{u: u, cs: cs, Func: fn, declSet: map[string]bool{}, roots: map[string]string{}, sorts: map[string]string{}, names: map[string]int{}}
}

func (vc *VC) fresh(base, sort string) string {
	vc.nfresh++
	name := fmt.Sprintf("%s!%d", sanitize(base), vc.nfresh)
	vc.declare(name, sort)
	return name
}

func (vc *VC) declare(name, sort string) {
	if vc.declSet[name] {
		return
	}
	vc.declSet[name] = true
	vc.decls = append(vc.decls, fmt.Sprintf("(declare-const %s %s)", name, sort))
}

func (vc *VC) declareFun(name string, args []string, ret string) {
	if vc.declSet[name] {
		return
	}
	vc.declSet[name] = true
	vc.decls = append(vc.decls, fmt.Sprintf("(declare-fun %s (%s) %s)", name, strings.Join(args, " "), ret))
}

func (vc *VC) assume(a string) {
	if a == "true" {
		return
	}
	vc.assum = append(vc.assum, a)
}

// assumeScoped records a fact that only obligations serving one of the given properties may use (dropping an
// assumption elsewhere is sound; it keeps the proofs of different properties from interfering).
func (vc *VC) assumeScoped(a string, tags []string) {
	if a == "true" {
		return
	}
	if vc.assumTags == nil {
		vc.assumTags = map[int][]string{}
	}
	vc.assumTags[len(vc.assum)] = tags
	vc.assum = append(vc.assum, a)
}

func (vc *VC) addErr(format string, args ...interface{}) {
	vc.errs = append(vc.errs, fmt.Sprintf(format, args...))
}

func (vc *VC) note(s string) {
	for _, x := range vc.assumed {
		if x == s {
			return
		}
	}
	vc.assumed = append(vc.assumed, s)
}

func (vc *VC) oblige(o *Oblig) {
	vc.names[o.Name]++
	if n := vc.names[o.Name]; n > 1 {
		o.Name = fmt.Sprintf("%s~%d", o.Name, n)
	}
	o.Func = vc.Func
	o.nAssum = len(vc.assum)
	o.nDecl = len(vc.decls)
	sort.Strings(o.Props)
	vc.obligs = append(vc.obligs, o)
}

// mem returns the current term of a memory in a state (root version if untouched).
func (vc *VC) mem(st State, name, sort string) string {
	if t, ok := st[name]; ok {
		return t
	}
	return vc.root(name, sort)
}

func (vc *VC) root(name, sort string) string {
	if r, ok := vc.roots[name]; ok {
		return r
	}
	r := sanitize(name) + "@0"
	vc.roots[name] = r
	vc.sorts[name] = sort
	vc.declare(r, sort)
	return r
}

// ---- memory naming ----

func fieldMem(T, f string) string { return "H." + T + "." + f }
func elemMem(e *Ty) string        { return "M." + e.MemKey() }
func cellMem(e *Ty) string        { return "C." + e.MemKey() }
func mapHasMem(m *Ty) string      { return "MH." + m.Key.MemKey() + "." + m.Val.MemKey() }
func mapValMem(m *Ty) string      { return "MV." + m.Key.MemKey() + "." + m.Val.MemKey() }
func ctrStruct(T string) string   { return "N." + T }
func ctrArr(e *Ty) string         { return "NA." + e.MemKey() }
func ctrCell(e *Ty) string        { return "NC." + e.MemKey() }
func ctrMap(m *Ty) string         { return "NM." + m.Key.MemKey() + "." + m.Val.MemKey() }
func ghostMem(name string) string { return "G." + name }

func arraySort(idx, val string) string { return "(Array " + idx + " " + val + ")" }

func (vc *VC) fieldSort(T, f string) (string, *Ty, error) {
	si := vc.u.Structs[T]
	if si == nil {
		return "", nil, fmt.Errorf("unknown struct %s", T)
	}
	fi := si.Field(f)
	if fi == nil {
		for _, g := range vc.cs.GhostFields {
			if g.Struct == T && g.Name == f {
				ty, err := vc.u.tyOfTypeExpr(g.Ty, vc.cs)
				if err != nil {
					return "", nil, err
				}
				return arraySort("Int", ty.Sort()), ty, nil
			}
		}
		return "", nil, fmt.Errorf("struct %s has no field %s", T, f)
	}
	return arraySort("Int", fi.Ty.Sort()), fi.Ty, nil
}

func elemMemSort(e *Ty) string { return arraySort("Int", arraySort("Int", e.Sort())) }

// prelude declares the fixed sorts.
func (vc *VC) prelude(extraDecls []string) string {
	var b strings.Builder
	b.WriteString("(declare-datatypes ((Slice 0)) (((mk-slice (s-arr Int) (s-len Int) (s-cap Int)))))\n")
	b.WriteString("(declare-datatypes ((Err 0)) (((noerr) (mkerr (errmsg String)))))\n")
	b.WriteString("(declare-datatypes ((Ptr 0)) (((pnil) (pfield (pf-fid Int) (pf-obj Int)) (pcell (pc-id Int)))))\n")
	for _, name := range vc.u.structOrder {
		si := vc.u.Structs[name]
		fmt.Fprintf(&b, "(declare-datatypes ((SV_%s 0)) (((mk_%s", name, name)
		for _, f := range si.Fields {
			fmt.Fprintf(&b, " (%s..%s %s)", name, f.Name, f.Ty.Sort())
		}
		b.WriteString("))))\n")
	}
	b.WriteString("(declare-fun EqualFold (String String) Bool)\n")
	b.WriteString("(declare-fun ToLower (String) String)\n")
	b.WriteString("(declare-fun Sprintf (Int) String)\n")
	for _, d := range extraDecls {
		b.WriteString(d)
		b.WriteString("\n")
	}
	return b.String()
}

type defInstance struct {
	f     *SpecFn
	args  []TV
	depth int
}

// noteInstance records a ground application of a defined spec function.
func (vc *VC) noteInstance(f *SpecFn, args []TV, depth int) {
	var ts []string
	for _, a := range args {
		if strings.Contains(a.T, "$") { // mentions a bound variable: not ground
			return
		}
		ts = append(ts, a.T)
	}
	key := f.Name + "(" + strings.Join(ts, " ") + ")"
	if vc.instSeen == nil {
		vc.instSeen = map[string]bool{}
	}
	if vc.instSeen[key] {
		return
	}
	vc.instSeen[key] = true
	vc.instances = append(vc.instances, &defInstance{f: f, args: args, depth: depth})
}

// unfoldInstances emits "f(args) = body[args]" for every recorded ground instance, up to each definition's depth.
// The definitional equations are global facts (they constrain only the uninterpreted symbol f).
func (vc *VC) unfoldInstances() []string {
	var out []string
	for i := 0; i < len(vc.instances); i++ {
		in := vc.instances[i]
		if in.depth >= in.f.Depth {
			continue
		}
		vars := map[string]TV{}
		var ts []string
		for k, prm := range in.f.Params {
			vars[prm.Name] = in.args[k]
			ts = append(ts, in.args[k].T)
		}
		env := &SpecEnv{vc: vc, vars: vars, st: State{}, unfoldDepth: in.depth + 1}
		body, err := env.tr(in.f.Body)
		if err != nil {
			vc.addErr("def %s: %v", in.f.Name, err)
			continue
		}
		lhs := in.f.Name
		if len(ts) > 0 {
			lhs = "(" + in.f.Name + " " + strings.Join(ts, " ") + ")"
		}
		out = append(out, eq(lhs, body.T))
	}
	return out
}

type subTerm struct {
	root, lo, n, term string
}

// substr builds the term base[lo : lo+n] and records, as ground facts, how it relates to the other substring terms
// over the same root string (substring-of-substring arithmetic):
//
//	root[a+c : a+c+m] == (root[a : a+n])[c : c+m]   whenever the inner range lies inside the outer one.
//
// These are facts about strings (not about the code); the string solvers derive them only slowly, and with them the
// remaining reasoning about the scanner's buffer is congruence plus linear arithmetic.
func (vc *VC) substr(base, lo, n string) string {
	term := "(str.substr " + base + " " + lo + " " + n + ")"
	if strings.Contains(term, "$") {
		return term
	}
	if vc.subs == nil {
		vc.subs = map[string][]subTerm{}
		vc.subDef = map[string]subTerm{}
	}
	root, rlo := base, lo
	if d, ok := vc.subDef[base]; ok {
		// base is itself root[d.lo : d.lo+d.n]
		root = d.root
		rlo = "(+ " + d.lo + " " + lo + ")"
		direct := "(str.substr " + root + " " + rlo + " " + n + ")"
		vc.strFacts = append(vc.strFacts, implies(and("(<= 0 "+lo+")", "(<= 0 "+n+")", "(<= (+ "+lo+" "+n+") "+d.n+")", "(<= 0 "+d.lo+")", "(<= (+ "+d.lo+" "+d.n+") (str.len "+root+"))"), eq(term, direct)))
	}
	me := subTerm{root: root, lo: rlo, n: n, term: term}
	for _, o := range vc.subs[root] {
		if o.term == term {
			return term
		}
	}
	for _, o := range vc.subs[root] {
		// me inside o
		vc.strFacts = append(vc.strFacts, implies(and("(<= 0 "+o.lo+")", "(<= "+o.lo+" "+me.lo+")", "(<= 0 "+me.n+")", "(<= (+ "+me.lo+" "+me.n+") (+ "+o.lo+" "+o.n+"))", "(<= (+ "+o.lo+" "+o.n+") (str.len "+root+"))"),
			eq(me.term, "(str.substr "+o.term+" (- "+me.lo+" "+o.lo+") "+me.n+")")))
		// o inside me
		vc.strFacts = append(vc.strFacts, implies(and("(<= 0 "+me.lo+")", "(<= "+me.lo+" "+o.lo+")", "(<= 0 "+o.n+")", "(<= (+ "+o.lo+" "+o.n+") (+ "+me.lo+" "+me.n+"))", "(<= (+ "+me.lo+" "+me.n+") (str.len "+root+"))"),
			eq(o.term, "(str.substr "+me.term+" (- "+o.lo+" "+me.lo+") "+o.n+")")))
	}
	if len(vc.subs[root]) < 12 {
		vc.subs[root] = append(vc.subs[root], me)
	}
	return term
}
