#!/usr/bin/env python3
"""mutation_campaign.py <mutdir> <out.json> [start end]: for every syntactic mutant (selftest/mutate) that compiles and
passes the repository's own test suite, run the whole deductive check (govc prove, all obligations) on a scratch clone
and record how many obligations fail.  A surviving mutant that fails nothing is either equivalent or a hole in the
contracts; those are listed for inspection."""
import json, os, shutil, subprocess, sys, tempfile
mutdir, outp = sys.argv[1], sys.argv[2]
start = int(sys.argv[3]) if len(sys.argv) > 3 else 0
end = int(sys.argv[4]) if len(sys.argv) > 4 else 10**9
ENV = dict(os.environ, GOFLAGS="-mod=mod", GOPROXY="off", GOSUMDB="off", GOTOOLCHAIN="local")
VERIF = os.path.dirname(os.path.dirname(os.path.abspath(__file__)))
tmp = tempfile.mkdtemp(prefix="verif_mut_")
dst = os.path.join(tmp, "repo")
subprocess.run(["git", "clone", "-q", "--no-hardlinks", os.environ.get("VERIF_BASE_REPO", "/repo"), dst], check=True)
res = []
try:
    names = sorted(f[:-5] for f in os.listdir(mutdir) if f.endswith(".json"))
    for n in names:
        if not (start <= int(n) < end):
            continue
        m = json.load(open(os.path.join(mutdir, n + ".json")))
        target = os.path.join(dst, "spdxexp", m["file"])
        orig = open(target).read()
        shutil.copy(os.path.join(mutdir, n + ".go.txt"), target)
        try:
            b = subprocess.run(["go", "build", "./..."], cwd=dst, env=ENV, capture_output=True, text=True)
            if b.returncode != 0:
                m["outcome"] = "does-not-compile"
                continue
            t = subprocess.run(["go", "test", "-vet=off", "-count=1", "-timeout", "60s", "./..."], cwd=dst, env=ENV, capture_output=True, text=True)
            if t.returncode != 0:
                m["outcome"] = "killed-by-tests"
                continue
            o = tempfile.NamedTemporaryFile(suffix=".json", delete=False); o.close()
            subprocess.run([os.path.join(VERIF, "bin", "govc"), "prove", "-timeout", "10", "-out", o.name, dst], env=ENV, capture_output=True, text=True)
            try:
                r = json.load(open(o.name))
                bad = [v["name"] for v in (r["verdicts"] or []) if v["status"] != "proved"]
                m["failed"] = len(bad); m["first"] = bad[:4]; m["errors"] = (r.get("errors") or [])[:2]
                m["outcome"] = "caught" if bad or r.get("errors") else "NOT-CAUGHT"
            except Exception as e:
                m["outcome"] = "engine-error"; m["errors"] = [str(e)]
            os.unlink(o.name)
        finally:
            open(target, "w").write(orig)
            m["id"] = n
            res.append(m)
            print(n, m["file"], m["line"], m["what"], "->", m.get("outcome"), m.get("failed", ""), flush=True)
            json.dump(res, open(outp, "w"), indent=1)
finally:
    shutil.rmtree(tmp, ignore_errors=True)
