// mutate: enumerate single-point syntactic mutants of the non-test, non-generated Go files of a package directory.
// Usage: mutate <pkgdir> <outdir>   writes <outdir>/<n>.go.txt (the mutated file), <outdir>/<n>.json (file, line, what)
package main

import (
	"bytes"
	"encoding/json"
	"fmt"
	"go/ast"
	"go/parser"
	"go/printer"
	"go/token"
	"os"
	"path/filepath"
	"strings"
)

type meta struct {
	File string `json:"file"`
	Line int    `json:"line"`
	What string `json:"what"`
}

var swaps = map[token.Token][]token.Token{
	token.EQL: {token.NEQ}, token.NEQ: {token.EQL},
	token.LSS: {token.LEQ, token.GTR}, token.LEQ: {token.LSS}, token.GTR: {token.GEQ, token.LSS}, token.GEQ: {token.GTR},
	token.LAND: {token.LOR}, token.LOR: {token.LAND},
	token.ADD: {token.SUB}, token.SUB: {token.ADD},
}

func main() {
	dir, out := os.Args[1], os.Args[2]
	os.MkdirAll(out, 0o755)
	files, _ := filepath.Glob(filepath.Join(dir, "*.go"))
	n := 0
	for _, f := range files {
		base := filepath.Base(f)
		if strings.HasSuffix(base, "_test.go") || strings.HasPrefix(base, "verif_") || base == "doc.go" || base == "test_helper.go" {
			continue
		}
		src, _ := os.ReadFile(f)
		if bytes.Contains(src, []byte("//go:build verif")) {
			continue
		}
		// count mutation points first, then re-parse for each mutant (simple and safe)
		count := func() int {
			fset := token.NewFileSet()
			af, err := parser.ParseFile(fset, f, src, parser.ParseComments)
			if err != nil {
				return 0
			}
			c := 0
			ast.Inspect(af, func(nd ast.Node) bool { c += len(points(nd)); return true })
			return c
		}()
		for k := 0; k < count; k++ {
			fset := token.NewFileSet()
			af, _ := parser.ParseFile(fset, f, src, parser.ParseComments)
			idx := 0
			var m *meta
			ast.Inspect(af, func(nd ast.Node) bool {
				ps := points(nd)
				for _, p := range ps {
					if idx == k {
						what := p()
						m = &meta{File: base, Line: fset.Position(nd.Pos()).Line, What: what}
					}
					idx++
				}
				return true
			})
			if m == nil {
				continue
			}
			var buf bytes.Buffer
			if err := printer.Fprint(&buf, fset, af); err != nil {
				continue
			}
			os.WriteFile(filepath.Join(out, fmt.Sprintf("%04d.go.txt", n)), buf.Bytes(), 0o644)
			j, _ := json.Marshal(m)
			os.WriteFile(filepath.Join(out, fmt.Sprintf("%04d.json", n)), j, 0o644)
			n++
		}
	}
	fmt.Println(n, "mutants")
}

// points returns the mutations applicable at a node; each closure applies one and describes it.
func points(nd ast.Node) []func() string {
	var out []func() string
	switch x := nd.(type) {
	case *ast.BinaryExpr:
		for _, t := range swaps[x.Op] {
			t := t
			if x.Op == token.ADD {
				// string concatenation cannot become subtraction
				if isStringish(x.X) || isStringish(x.Y) {
					continue
				}
			}
			out = append(out, func() string { old := x.Op; x.Op = t; return fmt.Sprintf("%s -> %s", old, t) })
		}
	case *ast.UnaryExpr:
		if x.Op == token.NOT {
			out = append(out, func() string { x.X = &ast.UnaryExpr{Op: token.NOT, X: x.X}; return "drop !" })
		}
	case *ast.BasicLit:
		if x.Kind == token.INT {
			switch x.Value {
			case "0":
				out = append(out, func() string { x.Value = "1"; return "0 -> 1" })
			case "1":
				out = append(out, func() string { x.Value = "0"; return "1 -> 0" }, func() string { x.Value = "2"; return "1 -> 2" })
			default:
				out = append(out, func() string { old := x.Value; x.Value = old + " + 1"; return old + " -> +1" })
			}
		}
	case *ast.Ident:
		if x.Name == "true" {
			out = append(out, func() string { x.Name = "false"; return "true -> false" })
		} else if x.Name == "false" {
			out = append(out, func() string { x.Name = "true"; return "false -> true" })
		}
	case *ast.BranchStmt:
		if x.Tok == token.BREAK && x.Label == nil {
			out = append(out, func() string { x.Tok = token.CONTINUE; return "break -> continue" })
		} else if x.Tok == token.CONTINUE && x.Label == nil {
			out = append(out, func() string { x.Tok = token.BREAK; return "continue -> break" })
		}
	case *ast.IncDecStmt:
		out = append(out, func() string {
			if x.Tok == token.INC {
				x.Tok = token.DEC
				return "++ -> --"
			}
			x.Tok = token.INC
			return "-- -> ++"
		})
	case *ast.IfStmt:
		if x.Else == nil && x.Init == nil {
			out = append(out, func() string { x.Cond = &ast.ParenExpr{X: &ast.BinaryExpr{X: x.Cond, Op: token.LAND, Y: ast.NewIdent("false")}}; return "if never taken" })
		}
	}
	return out
}

func isStringish(e ast.Expr) bool {
	switch x := e.(type) {
	case *ast.BasicLit:
		return x.Kind == token.STRING
	case *ast.BinaryExpr:
		return isStringish(x.X) || isStringish(x.Y)
	case *ast.SliceExpr, *ast.CallExpr:
		return true
	case *ast.Ident:
		n := strings.ToLower(x.Name)
		return strings.Contains(n, "license") || strings.Contains(n, "expression") || strings.Contains(n, "msg") || strings.Contains(n, "str") || n == "s" || n == "op" || n == "id"
	}
	return false
}
