#!/bin/sh
# try_patch.sh <patch> [govc prove args...]: apply a patch to a scratch clone of /repo (plus uncommitted /repo changes) and run govc prove on it
set -e
P=$(realpath "$1"); shift
T=$(mktemp -d /tmp/verif_try_XXXX)
trap 'rm -rf "$T"' EXIT
git clone -q --no-hardlinks /repo "$T/repo"
(cd /repo && git diff HEAD) | (cd "$T/repo" && git apply --allow-empty 2>/dev/null || true)
(cd "$T/repo" && git apply "$P")
export GOFLAGS=-mod=mod GOPROXY=off GOSUMDB=off GOTOOLCHAIN=local
/verif/bin/govc prove "$@" "$T/repo" 2>&1 | cut -c1-220 | tail -12
