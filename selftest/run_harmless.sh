#!/bin/sh
# run_harmless.sh [substring]: the must-PASS corpus. Every patch in selftest/harmless is a semantics-preserving edit that keeps
# the names the contracts use; the whole deductive check (every obligation of every property) must still pass on it.
# Runs on scratch clones outside /repo and /verif. Exit 1 if some edit raises an alarm.
cd "$(dirname "$0")"
bad=0
for p in harmless/*${1}*.patch; do
  out=$(./try_patch.sh "$p" 2>&1 | tail -1)
  case "$out" in
    *" 0 failed"*) echo "pass  $(basename $p)  $out" ;;
    *) echo "ALARM $(basename $p)  $out"; bad=1 ;;
  esac
done
exit $bad
