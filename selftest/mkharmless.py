#!/usr/bin/env python3
"""mkmutant.py <name> <file> <old> <new> [<file> <old> <new> ...]: build selftest/mutants/<name>.patch from textual edits on a scratch clone of /repo."""
import subprocess, sys, tempfile, shutil, os
name = sys.argv[1]
edits = sys.argv[2:]
tmp = tempfile.mkdtemp(prefix="verif_mk_")
try:
    dst = os.path.join(tmp, "repo")
    subprocess.run(["git", "clone", "-q", "/repo", dst], check=True)
    for i in range(0, len(edits), 3):
        f, old, new = edits[i:i+3]
        p = os.path.join(dst, f)
        s = open(p).read()
        if s.count(old) != 1:
            print("edit %d: pattern occurs %d times in %s" % (i // 3, s.count(old), f)); sys.exit(1)
        open(p, "w").write(s.replace(old, new))
    env = dict(os.environ, GOFLAGS="-mod=mod", GOPROXY="off", GOSUMDB="off", GOTOOLCHAIN="local")
    b = subprocess.run(["go", "build", "./..."], cwd=dst, env=env, capture_output=True, text=True)
    if b.returncode != 0:
        print("does not compile:", b.stderr[-800:]); sys.exit(1)
    t = subprocess.run(["go", "test", "-vet=off", "-count=1", "./..."], cwd=dst, env=env, capture_output=True, text=True)
    d = subprocess.run(["git", "-C", dst, "diff"], capture_output=True, text=True).stdout
    out = os.path.join(os.path.dirname(os.path.abspath(__file__)), "harmless", name + ".patch")
    open(out, "w").write(d)
    print(name, "written; existing suite:", "passes" if t.returncode == 0 else "FAILS (mutant is visible to the tests)")
finally:
    shutil.rmtree(tmp, ignore_errors=True)
